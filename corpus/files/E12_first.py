abc = "E121", (
    #: E121:2
  "dent")
abc = "E122", (
    #: E121:0
"dent")
my_list = [
    1, 2, 3,
    4, 5, 6,
    #: E123
    ]
abc = "E124", ("visual",
               "indent_two"
               #: E124:14
              )
abc = "E124", ("visual",
               "indent_five"
               #: E124:0
)
a = (123,
     #: E124:0
)
#: E129+1:4
if (row < 0 or self.moduleCount <= row or
    col < 0 or self.moduleCount <= col):
    raise Exception("%s,%s - %s" % (row, col, self.moduleCount))

abc = "E126", (
    #: E126:12
            "dent")
abc = "E126", (
    #: E126:8
        "dent")
abc = "E127", ("over-",
               #: E127:18
                  "over-indent")
abc = "E128", ("visual",
               #: E128:4
    "hanging")
abc = "E128", ("under-",
               #: E128:14
              "under-indent")


my_list = [
    1, 2, 3,
    4, 5, 6,
    #: E123:5
     ]
result = {
    #: E121:3
   'key1': 'value',
    #: E121:3
   'key2': 'value',
}
rv.update(dict.fromkeys((
              'qualif_nr', 'reasonComment_en', 'reasonComment_fr',
              'reasonComment_de', 'reasonComment_it'),
                        #: E128:10
          '?'),
          "foo")

abricot = 3 + \
          4 + \
          5 + 6
abc = "hello", (

    "there",
    #: E126:5
     # "john",
    "dude")
part = set_mimetype((
    a.get('mime_type', 'text')),
                    'default')
part = set_mimetype((
    a.get('mime_type', 'text')),
                    #: E127:21
                     'default')
