#: E231:7
a = (1,2)
#: E231:5
a[b1,:]
#: E231:10
a = [{'a':''}]
# Okay
a = (4,)
#: E202:7
b = (5, )
c = {'text': text[5:]}

result = {
    'key1': 'value',
    'key2': 'value',
}
