# Okay
from u import (a, b)
from v import c, d
#: E221:13
from w import  (e, f)
#: E275:13
from w import(e, f)
#: E275:29
from importable.module import(e, f)
try:
    #: E275:33
    from importable.module import(e, f)
except ImportError:
    pass
# Okay
True and False
#: E221:8
True and  False
#: E221:4
True  and False
#: E221:2
if   1:
    pass
# Syntax Error, no indentation
#: E903+1
if   1:
pass
#: E223:8
True and		False
#: E223:4 E223:9
True		and	False
#: E221:5
a and  b
#: E221:5
1 and  b
#: E221:5
a and  2
#: E221:1 E221:6
1  and  b
#: E221:1 E221:6
a  and  2
#: E221:4
this  and False
#: E223:5
a and	b
#: E223:1
a		and b
#: E223:4 E223:9
this		and	False
