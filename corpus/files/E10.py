for a in 'abc':
    for b in 'xyz':
        hello(a)  # indented with 8 spaces
        #: E903:0
	hello(b)  # indented with 1 tab
if True:
    #: E101:0
	pass

#: E122+1
change_2_log = \
"""Change 2 by slamb@testclient on 2006/04/13 21:46:23

	creation
"""

p4change = {
    2: change_2_log,
}


class TestP4Poller(unittest.TestCase):
    def setUp(self):
        self.setUpGetProcessOutput()
        return self.setUpChangeSource()

    def tearDown(self):
        pass


#
if True:
    #: E101:0 E101+1:0
	foo(1,
	    2)


def test_keys(self):
    """areas.json - All regions are accounted for."""
    expected = set([
        #: E101:0
	u'Norrbotten',
        #: E101:0
	u'V\xe4sterbotten',
    ])


if True:
    hello("""
	tab at start of this line
""")
