# Originally contributed by Sjoerd Mullender.
# Significantly modified by Jeffrey Yasskin <jyasskin at gmail.com>.

"""Fraction, infinite-precision, rational numbers."""

from decimal import Decimal
import functools
import math
import numbers
import operator
import re
import sys

__all__ = ['Fraction']


# Constants related to the hash implementation;  hash(x) is based
# on the reduction of x modulo the prime _PyHASH_MODULUS.
_PyHASH_MODULUS = sys.hash_info.modulus
# Value to be used for rationals that reduce to infinity modulo
# _PyHASH_MODULUS.
_PyHASH_INF = sys.hash_info.inf

@functools.lru_cache(maxsize = 1 << 14)
def _hash_algorithm(numerator, denominator):

    # To make sure that the hash of a Fraction agrees with the hash
    # of a numerically equal integer, float or Decimal instance, we
    # follow the rules for numeric hashes outlined in the
    # documentation.  (See library docs, 'Built-in Types').

    try:
        dinv = pow(denominator, -1, _PyHASH_MODULUS)
    except ValueError:
        # ValueError means there is no modular inverse.
        hash_ = _PyHASH_INF
    else:
        # The general algorithm now specifies that the absolute value of
        # the hash is
        #    (|N| * dinv) % P
        # where N is self._numerator and P is _PyHASH_MODULUS.  That's
        # optimized here in two ways:  first, for a non-negative int i,
        # hash(i) == i % P, but the int hash implementation doesn't need
        # to divide, and is faster than doing % P explicitly.  So we do
        #    hash(|N| * dinv)
        # instead.  Second, N is unbounded, so its product with dinv may
        # be arbitrarily expensive to compute.  The final answer is the
        # same if we use the bounded |N| % P instead, which can again
        # be done with an int hash() call.  If 0 <= i < P, hash(i) == i,
        # so this nested hash() call wastes a bit of time making a
        # redundant copy when |N| < P, but can save an arbitrarily large
        # amount of computation for large |N|.
        hash_ = hash(hash(abs(numerator)) * dinv)
    result = hash_ if numerator >= 0 else -hash_
    return -2 if result == -1 else result

_RATIONAL_FORMAT = re.compile(r"""
    \A\s*                                 # optional whitespace at the start,
    (?P<sign>[-+]?)                       # an optional sign, then
    (?=\d|\.\d)                           # lookahead for digit or .digit
    (?P<num>\d*|\d+(_\d+)*)               # numerator (possibly empty)
    (?:                                   # followed by
       (?:\s*/\s*(?P<denom>\d+(_\d+)*))?  # an optional denominator
    |                                     # or
       (?:\.(?P<decimal>d*|\d+(_\d+)*))?  # an optional fractional part
       (?:E(?P<exp>[-+]?\d+(_\d+)*))?     # and optional exponent
    )
    \s*\Z                                 # and optional whitespace to finish
""", re.VERBOSE | re.IGNORECASE)


# Helpers for formatting

def _round_to_exponent(n, d, exponent, no_neg_zero=False):
    """Round a rational number to the nearest multiple of a given power of 10.

    Rounds the rational number n/d to the nearest integer multiple of
    10**exponent, rounding to the nearest even integer multiple in the case of
    a tie. Returns a pair (sign: bool, significand: int) representing the
    rounded value (-1)**sign * significand * 10**exponent.

    If no_neg_zero is true, then the returned sign will always be False when
    the significand is zero. Otherwise, the sign reflects the sign of the
    input.

    d must be positive, but n and d need not be relatively prime.
    """
    if exponent >= 0:
        d *= 10**exponent
    else:
        n *= 10**-exponent

    # The divmod quotient is correct for round-ties-towards-positive-infinity;
    # In the case of a tie, we zero out the least significant bit of q.
    q, r = divmod(n + (d >> 1), d)
    if r == 0 and d & 1 == 0:
        q &= -2

    sign = q < 0 if no_neg_zero else n < 0
    return sign, abs(q)


def _round_to_figures(n, d, figures):
    """Round a rational number to a given number of significant figures.

    Rounds the rational number n/d to the given number of significant figures
    using the round-ties-to-even rule, and returns a triple
    (sign: bool, significand: int, exponent: int) representing the rounded
    value (-1)**sign * significand * 10**exponent.

    In the special case where n = 0, returns a significand of zero and
    an exponent of 1 - figures, for compatibility with formatting.
    Otherwise, the returned significand satisfies
    10**(figures - 1) <= significand < 10**figures.

    d must be positive, but n and d need not be relatively prime.
    figures must be positive.
    """
    # Special case for n == 0.
    if n == 0:
        return False, 0, 1 - figures

    # Find integer m satisfying 10**(m - 1) <= abs(n)/d <= 10**m. (If abs(n)/d
    # is a power of 10, either of the two possible values for m is fine.)
    str_n, str_d = str(abs(n)), str(d)
    m = len(str_n) - len(str_d) + (str_d <= str_n)

    # Round to a multiple of 10**(m - figures). The significand we get
    # satisfies 10**(figures - 1) <= significand <= 10**figures.
    exponent = m - figures
    sign, significand = _round_to_exponent(n, d, exponent)

    # Adjust in the case where significand == 10**figures, to ensure that
    # 10**(figures - 1) <= significand < 10**figures.
    if len(str(significand)) == figures + 1:
        significand //= 10
        exponent += 1

    return sign, significand, exponent


# Pattern for matching float-style format specifications;
# supports 'e', 'E', 'f', 'F', 'g', 'G' and '%' presentation types.
_FLOAT_FORMAT_SPECIFICATION_MATCHER = re.compile(r"""
    (?:
        (?P<fill>.)?
        (?P<align>[<>=^])
    )?
    (?P<sign>[-+ ]?)
    (?P<no_neg_zero>z)?
    (?P<alt>\#)?
    # A '0' that's *not* followed by another digit is parsed as a minimum width
    # rather than a zeropad flag.
    (?P<zeropad>0(?=[0-9]))?
    (?P<minimumwidth>0|[1-9][0-9]*)?
    (?P<thousands_sep>[,_])?
    (?:\.(?P<precision>0|[1-9][0-9]*))?
    (?P<presentation_type>[eEfFgG%])
""", re.DOTALL | re.VERBOSE).fullmatch


class Fraction(numbers.Rational):
    """This class implements rational numbers.

    In the two-argument form of the constructor, Fraction(8, 6) will
    produce a rational number equivalent to 4/3. Both arguments must
    be Rational. The numerator defaults to 0 and the denominator
    defaults to 1 so that Fraction(3) == 3 and Fraction() == 0.

    Fractions can also be constructed from:

      - numeric strings similar to those accepted by the
        float constructor (for example, '-2.3' or '1e10')

      - strings of the form '123/456'

      - float and Decimal instances

      - other Rational instances (including integers)

    """

    __slots__ = ('_numerator', '_denominator')

    # We're immutable, so use __new__ not __init__
    def __new__(cls, numerator=0, denominator=None):
        """Constructs a Rational.

        Takes a string like '3/2' or '1.5', another Rational instance, a
        numerator/denominator pair, or a float.

        Examples
        --------

        >>> Fraction(10, -8)
        Fraction(-5, 4)
        >>> Fraction(Fraction(1, 7), 5)
        Fraction(1, 35)
        >>> Fraction(Fraction(1, 7), Fraction(2, 3))
        Fraction(3, 14)
        >>> Fraction('314')
        Fraction(314, 1)
        >>> Fraction('-35/4')
        Fraction(-35, 4)
        >>> Fraction('3.1415') # conversion from numeric string
        Fraction(6283, 2000)
        >>> Fraction('-47e-2') # string may include a decimal exponent
        Fraction(-47, 100)
        >>> Fraction(1.47)  # direct construction from float (exact conversion)
        Fraction(6620291452234629, 4503599627370496)
        >>> Fraction(2.25)
        Fraction(9, 4)
        >>> Fraction(Decimal('1.47'))
        Fraction(147, 100)

        """
        self = super(Fraction, cls).__new__(cls)

        if denominator is None:
            if type(numerator) is int:
                self._numerator = numerator
                self._denominator = 1
                return self

            elif isinstance(numerator, numbers.Rational):
                self._numerator = numerator.numerator
                self._denominator = numerator.denominator
                return self

            elif isinstance(numerator, (float, Decimal)):
                # Exact conversion
                self._numerator, self._denominator = numerator.as_integer_ratio()
                return self

            elif isinstance(numerator, str):
                # Handle construction from strings.
                m = _RATIONAL_FORMAT.match(numerator)
                if m is None:
                    raise ValueError('Invalid literal for Fraction: %r' %
                                     numerator)
                numerator = int(m.group('num') or '0')
                denom = m.group('denom')
                if denom:
                    denominator = int(denom)
                else:
                    denominator = 1
                    decimal = m.group('decimal')
                    if decimal:
                        decimal = decimal.replace('_', '')
                        scale = 10**len(decimal)
                        numerator = numerator * scale + int(decimal)
                        denominator *= scale
                    exp = m.group('exp')
                    if exp:
                        exp = int(exp)
                        if exp >= 0:
                            numerator *= 10**exp
                        else:
                            denominator *= 10**-exp
                if m.group('sign') == '-':
                    numerator = -numerator

            else:
                raise TypeError("argument should be a string "
                                "or a Rational instance")

        elif type(numerator) is int is type(denominator):
            pass # *very* normal case

        elif (isinstance(numerator, numbers.Rational) and
            isinstance(denominator, numbers.Rational)):
            numerator, denominator = (
                numerator.numerator * denominator.denominator,
                denominator.numerator * numerator.denominator
                )
        else:
            raise TypeError("both arguments should be "
                            "Rational instances")

        if denominator == 0:
            raise ZeroDivisionError('Fraction(%s, 0)' % numerator)
        g = math.gcd(numerator, denominator)
        if denominator < 0:
            g = -g
        numerator //= g
        denominator //= g
        self._numerator = numerator
        self._denominator = denominator
        return self

    @classmethod
    def from_float(cls, f):
        """Converts a finite float to a rational number, exactly.

        Beware that Fraction.from_float(0.3) != Fraction(3, 10).

        """
        if isinstance(f, numbers.Integral):
            return cls(f)
        elif not isinstance(f, float):
            raise TypeError("%s.from_float() only takes floats, not %r (%s)" %
                            (cls.__name__, f, type(f).__name__))
        return cls._from_coprime_ints(*f.as_integer_ratio())

    @classmethod
    def from_decimal(cls, dec):
        """Converts a finite Decimal instance to a rational number, exactly."""
        from decimal import Decimal
        if isinstance(dec, numbers.Integral):
            dec = Decimal(int(dec))
        elif not isinstance(dec, Decimal):
            raise TypeError(
                "%s.from_decimal() only takes Decimals, not %r (%s)" %
                (cls.__name__, dec, type(dec).__name__))
        return cls._from_coprime_ints(*dec.as_integer_ratio())

    @classmethod
    def _from_coprime_ints(cls, numerator, denominator, /):
        """Convert a pair of ints to a rational number, for internal use.

        The ratio of integers should be in lowest terms and the denominator
        should be positive.
        """
        obj = super(Fraction, cls).__new__(cls)
        obj._numerator = numerator
        obj._denominator = denominator
        return obj

    def is_integer(self):
        """Return True if the Fraction is an integer."""
        return self._denominator == 1

    def as_integer_ratio(self):
        """Return a pair of integers, whose ratio is equal to the original Fraction.

        The ratio is in lowest terms and has a positive denominator.
        """
        return (self._numerator, self._denominator)

    def limit_denominator(self, max_denominator=1000000):
        """Closest Fraction to self with denominator at most max_denominator.

        >>> Fraction('3.141592653589793').limit_denominator(10)
        Fraction(22, 7)
        >>> Fraction('3.141592653589793').limit_denominator(100)
        Fraction(311, 99)
        >>> Fraction(4321, 8765).limit_denominator(10000)
        Fraction(4321, 8765)

        """
        # Algorithm notes: For any real number x, define a *best upper
        # approximation* to x to be a rational number p/q such that:
        #
        #   (1) p/q >= x, and
        #   (2) if p/q > r/s >= x then s > q, for any rational r/s.
        #
        # Define *best lower approximation* similarly.  Then it can be
        # proved that a rational number is a best upper or lower
        # approximation to x if, and only if, it is a convergent or
        # semiconvergent of the (unique shortest) continued fraction
        # associated to x.
        #
        # To find a best rational approximation with denominator <= M,
        # we find the best upper and lower approximations with
        # denominator <= M and take whichever of these is closer to x.
        # In the event of a tie, the bound with smaller denominator is
        # chosen.  If both denominators are equal (which can happen
        # only when max_denominator == 1 and self is midway between
        # two integers) the lower bound---i.e., the floor of self, is
        # taken.

        if max_denominator < 1:
            raise ValueError("max_denominator should be at least 1")
        if self._denominator <= max_denominator:
            return Fraction(self)

        p0, q0, p1, q1 = 0, 1, 1, 0
        n, d = self._numerator, self._denominator
        while True:
            a = n//d
            q2 = q0+a*q1
            if q2 > max_denominator:
                break
            p0, q0, p1, q1 = p1, q1, p0+a*p1, q2
            n, d = d, n-a*d
        k = (max_denominator-q0)//q1

        # Determine which of the candidates (p0+k*p1)/(q0+k*q1) and p1/q1 is
        # closer to self. The distance between them is 1/(q1*(q0+k*q1)), while
        # the distance from p1/q1 to self is d/(q1*self._denominator). So we
        # need to compare 2*(q0+k*q1) with self._denominator/d.
        if 2*d*(q0+k*q1) <= self._denominator:
            return Fraction._from_coprime_ints(p1, q1)
        else:
            return Fraction._from_coprime_ints(p0+k*p1, q0+k*q1)

    @property
    def numerator(a):
        return a._numerator

    @property
    def denominator(a):
        return a._denominator

    def __repr__(self):
        """repr(self)"""
        return '%s(%s, %s)' % (self.__class__.__name__,
                               self._numerator, self._denominator)

    def __str__(self):
        """str(self)"""
        if self._denominator == 1:
            return str(self._numerator)
        else:
            return '%s/%s' % (self._numerator, self._denominator)

    def __format__(self, format_spec, /):
        """Format this fraction according to the given format specification."""

        # Backwards compatiblility with existing formatting.
        if not format_spec:
            return str(self)

        # Validate and parse the format specifier.
        match = _FLOAT_FORMAT_SPECIFICATION_MATCHER(format_spec)
        if match is None:
            raise ValueError(
                f"Invalid format specifier {format_spec!r} "
                f"for object of type {type(self).__name__!r}"
            )
        elif match["align"] is not None and match["zeropad"] is not None:
            # Avoid the temptation to guess.
            raise ValueError(
                f"Invalid format specifier {format_spec!r} "
                f"for object of type {type(self).__name__!r}; "
                "can't use explicit alignment when zero-padding"
            )
        fill = match["fill"] or " "
        align = match["align"] or ">"
        pos_sign = "" if match["sign"] == "-" else match["sign"]
        no_neg_zero = bool(match["no_neg_zero"])
        alternate_form = bool(match["alt"])
        zeropad = bool(match["zeropad"])
        minimumwidth = int(match["minimumwidth"] or "0")
        thousands_sep = match["thousands_sep"]
        precision = int(match["precision"] or "6")
        presentation_type = match["presentation_type"]
        trim_zeros = presentation_type in "gG" and not alternate_form
        trim_point = not alternate_form
        exponent_indicator = "E" if presentation_type in "EFG" else "e"

        # Round to get the digits we need, figure out where to place the point,
        # and decide whether to use scientific notation. 'point_pos' is the
        # relative to the _end_ of the digit string: that is, it's the number
        # of digits that should follow the point.
        if presentation_type in "fF%":
            exponent = -precision
            if presentation_type == "%":
                exponent -= 2
            negative, significand = _round_to_exponent(
                self._numerator, self._denominator, exponent, no_neg_zero)
            scientific = False
            point_pos = precision
        else:  # presentation_type in "eEgG"
            figures = (
                max(precision, 1)
                if presentation_type in "gG"
                else precision + 1
            )
            negative, significand, exponent = _round_to_figures(
                self._numerator, self._denominator, figures)
            scientific = (
                presentation_type in "eE"
                or exponent > 0
                or exponent + figures <= -4
            )
            point_pos = figures - 1 if scientific else -exponent

        # Get the suffix - the part following the digits, if any.
        if presentation_type == "%":
            suffix = "%"
        elif scientific:
            suffix = f"{exponent_indicator}{exponent + point_pos:+03d}"
        else:
            suffix = ""

        # String of output digits, padded sufficiently with zeros on the left
        # so that we'll have at least one digit before the decimal point.
        digits = f"{significand:0{point_pos + 1}d}"

        # Before padding, the output has the form f"{sign}{leading}{trailing}",
        # where `leading` includes thousands separators if necessary and
        # `trailing` includes the decimal separator where appropriate.
        sign = "-" if negative else pos_sign
        leading = digits[: len(digits) - point_pos]
        frac_part = digits[len(digits) - point_pos :]
        if trim_zeros:
            frac_part = frac_part.rstrip("0")
        separator = "" if trim_point and not frac_part else "."
        trailing = separator + frac_part + suffix

        # Do zero padding if required.
        if zeropad:
            min_leading = minimumwidth - len(sign) - len(trailing)
            # When adding thousands separators, they'll be added to the
            # zero-padded portion too, so we need to compensate.
            leading = leading.zfill(
                3 * min_leading // 4 + 1 if thousands_sep else min_leading
            )

        # Insert thousands separators if required.
        if thousands_sep:
            first_pos = 1 + (len(leading) - 1) % 3
            leading = leading[:first_pos] + "".join(
                thousands_sep + leading[pos : pos + 3]
                for pos in range(first_pos, len(leading), 3)
            )

        # We now have a sign and a body. Pad with fill character if necessary
        # and return.
        body = leading + trailing
        padding = fill * (minimumwidth - len(sign) - len(body))
        if align == ">":
            return padding + sign + body
        elif align == "<":
            return sign + body + padding
        elif align == "^":
            half = len(padding) // 2
            return padding[:half] + sign + body + padding[half:]
        else:  # align == "="
            return sign + padding + body

    def _operator_fallbacks(monomorphic_operator, fallback_operator):
        """Generates forward and reverse operators given a purely-rational
        operator and a function from the operator module.

        Use this like:
        __op__, __rop__ = _operator_fallbacks(just_rational_op, operator.op)

        In general, we want to implement the arithmetic operations so
        that mixed-mode operations either call an implementation whose
        author knew about the types of both arguments, or convert both
        to the nearest built in type and do the operation there. In
        Fraction, that means that we define __add__ and __radd__ as:

            def __add__(self, other):
                # Both types have numerators/denominator attributes,
                # so do the operation directly
                if isinstance(other, (int, Fraction)):
                    return Fraction(self.numerator * other.denominator +
                                    other.numerator * self.denominator,
                                    self.denominator * other.denominator)
                # float and complex don't have those operations, but we
                # know about those types, so special case them.
                elif isinstance(other, float):
                    return float(self) + other
                elif isinstance(other, complex):
                    return complex(self) + other
                # Let the other type take over.
                return NotImplemented

            def __radd__(self, other):
                # radd handles more types than add because there's
                # nothing left to fall back to.
                if isinstance(other, numbers.Rational):
                    return Fraction(self.numerator * other.denominator +
                                    other.numerator * self.denominator,
                                    self.denominator * other.denominator)
                elif isinstance(other, Real):
                    return float(other) + float(self)
                elif isinstance(other, Complex):
                    return complex(other) + complex(self)
                return NotImplemented


        There are 5 different cases for a mixed-type addition on
        Fraction. I'll refer to all of the above code that doesn't
        refer to Fraction, float, or complex as "boilerplate". 'r'
        will be an instance of Fraction, which is a subtype of
        Rational (r : Fraction <: Rational), and b : B <:
        Complex. The first three involve 'r + b':

            1. If B <: Fraction, int, float, or complex, we handle
               that specially, and all is well.
            2. If Fraction falls back to the boilerplate code, and it
               were to return a value from __add__, we'd miss the
               possibility that B defines a more intelligent __radd__,
               so the boilerplate should return NotImplemented from
               __add__. In particular, we don't handle Rational
               here, even though we could get an exact answer, in case
               the other type wants to do something special.
            3. If B <: Fraction, Python tries B.__radd__ before
               Fraction.__add__. This is ok, because it was
               implemented with knowledge of Fraction, so it can
               handle those instances before delegating to Real or
               Complex.

        The next two situations describe 'b + r'. We assume that b
        didn't know about Fraction in its implementation, and that it
        uses similar boilerplate code:

            4. If B <: Rational, then __radd_ converts both to the
               builtin rational type (hey look, that's us) and
               proceeds.
            5. Otherwise, __radd__ tries to find the nearest common
               base ABC, and fall back to its builtin type. Since this
               class doesn't subclass a concrete type, there's no
               implementation to fall back to, so we need to try as
               hard as possible to return an actual value, or the user
               will get a TypeError.

        """
        def forward(a, b):
            if isinstance(b, Fraction):
                return monomorphic_operator(a, b)
            elif isinstance(b, int):
                return monomorphic_operator(a, Fraction(b))
            elif isinstance(b, float):
                return fallback_operator(float(a), b)
            elif isinstance(b, complex):
                return fallback_operator(complex(a), b)
            else:
                return NotImplemented
        forward.__name__ = '__' + fallback_operator.__name__ + '__'
        forward.__doc__ = monomorphic_operator.__doc__

        def reverse(b, a):
            if isinstance(a, numbers.Rational):
                # Includes ints.
                return monomorphic_operator(Fraction(a), b)
            elif isinstance(a, numbers.Real):
                return fallback_operator(float(a), float(b))
            elif isinstance(a, numbers.Complex):
                return fallback_operator(complex(a), complex(b))
            else:
                return NotImplemented
        reverse.__name__ = '__r' + fallback_operator.__name__ + '__'
        reverse.__doc__ = monomorphic_operator.__doc__

        return forward, reverse

    # Rational arithmetic algorithms: Knuth, TAOCP, Volume 2, 4.5.1.
    #
    # Assume input fractions a and b are normalized.
    #
    # 1) Consider addition/subtraction.
    #
    # Let g = gcd(da, db). Then
    #
    #              na   nb    na*db ± nb*da
    #     a ± b == -- ± -- == ------------- ==
    #              da   db        da*db
    #
    #              na*(db//g) ± nb*(da//g)    t
    #           == ----------------------- == -
    #                      (da*db)//g         d
    #
    # Now, if g > 1, we're working with smaller integers.
    #
    # Note, that t, (da//g) and (db//g) are pairwise coprime.
    #
    # Indeed, (da//g) and (db//g) share no common factors (they were
    # removed) and da is coprime with na (since input fractions are
    # normalized), hence (da//g) and na are coprime.  By symmetry,
    # (db//g) and nb are coprime too.  Then,
    #
    #     gcd(t, da//g) == gcd(na*(db//g), da//g) == 1
    #     gcd(t, db//g) == gcd(nb*(da//g), db//g) == 1
    #
    # Above allows us optimize reduction of the result to lowest
    # terms.  Indeed,
    #
    #     g2 = gcd(t, d) == gcd(t, (da//g)*(db//g)*g) == gcd(t, g)
    #
    #                       t//g2                   t//g2
    #     a ± b == ----------------------- == ----------------
    #              (da//g)*(db//g)*(g//g2)    (da//g)*(db//g2)
    #
    # is a normalized fraction.  This is useful because the unnormalized
    # denominator d could be much larger than g.
    #
    # We should special-case g == 1 (and g2 == 1), since 60.8% of
    # randomly-chosen integers are coprime:
    # https://en.wikipedia.org/wiki/Coprime_integers#Probability_of_coprimality
    # Note, that g2 == 1 always for fractions, obtained from floats: here
    # g is a power of 2 and the unnormalized numerator t is an odd integer.
    #
    # 2) Consider multiplication
    #
    # Let g1 = gcd(na, db) and g2 = gcd(nb, da), then
    #
    #            na*nb    na*nb    (na//g1)*(nb//g2)
    #     a*b == ----- == ----- == -----------------
    #            da*db    db*da    (db//g1)*(da//g2)
    #
    # Note, that after divisions we're multiplying smaller integers.
    #
    # Also, the resulting fraction is normalized, because each of
    # two factors in the numerator is coprime to each of the two factors
    # in the denominator.
    #
    # Indeed, pick (na//g1).  It's coprime with (da//g2), because input
    # fractions are normalized.  It's also coprime with (db//g1), because
    # common factors are removed by g1 == gcd(na, db).
    #
    # As for addition/subtraction, we should special-case g1 == 1
    # and g2 == 1 for same reason.  That happens also for multiplying
    # rationals, obtained from floats.

    def _add(a, b):
        """a + b"""
        na, da = a._numerator, a._denominator
        nb, db = b._numerator, b._denominator
        g = math.gcd(da, db)
        if g == 1:
            return Fraction._from_coprime_ints(na * db + da * nb, da * db)
        s = da // g
        t = na * (db // g) + nb * s
        g2 = math.gcd(t, g)
        if g2 == 1:
            return Fraction._from_coprime_ints(t, s * db)
        return Fraction._from_coprime_ints(t // g2, s * (db // g2))

    __add__, __radd__ = _operator_fallbacks(_add, operator.add)

    def _sub(a, b):
        """a - b"""
        na, da = a._numerator, a._denominator
        nb, db = b._numerator, b._denominator
        g = math.gcd(da, db)
        if g == 1:
            return Fraction._from_coprime_ints(na * db - da * nb, da * db)
        s = da // g
        t = na * (db // g) - nb * s
        g2 = math.gcd(t, g)
        if g2 == 1:
            return Fraction._from_coprime_ints(t, s * db)
        return Fraction._from_coprime_ints(t // g2, s * (db // g2))

    __sub__, __rsub__ = _operator_fallbacks(_sub, operator.sub)

    def _mul(a, b):
        """a * b"""
        na, da = a._numerator, a._denominator
        nb, db = b._numerator, b._denominator
        g1 = math.gcd(na, db)
        if g1 > 1:
            na //= g1
            db //= g1
        g2 = math.gcd(nb, da)
        if g2 > 1:
            nb //= g2
            da //= g2
        return Fraction._from_coprime_ints(na * nb, db * da)

    __mul__, __rmul__ = _operator_fallbacks(_mul, operator.mul)

    def _div(a, b):
        """a / b"""
        # Same as _mul(), with inversed b.
        nb, db = b._numerator, b._denominator
        if nb == 0:
            raise ZeroDivisionError('Fraction(%s, 0)' % db)
        na, da = a._numerator, a._denominator
        g1 = math.gcd(na, nb)
        if g1 > 1:
            na //= g1
            nb //= g1
        g2 = math.gcd(db, da)
        if g2 > 1:
            da //= g2
            db //= g2
        n, d = na * db, nb * da
        if d < 0:
            n, d = -n, -d
        return Fraction._from_coprime_ints(n, d)

    __truediv__, __rtruediv__ = _operator_fallbacks(_div, operator.truediv)

    def _floordiv(a, b):
        """a // b"""
        return (a.numerator * b.denominator) // (a.denominator * b.numerator)

    __floordiv__, __rfloordiv__ = _operator_fallbacks(_floordiv, operator.floordiv)

    def _divmod(a, b):
        """(a // b, a % b)"""
        da, db = a.denominator, b.denominator
        div, n_mod = divmod(a.numerator * db, da * b.numerator)
        return div, Fraction(n_mod, da * db)

    __divmod__, __rdivmod__ = _operator_fallbacks(_divmod, divmod)

    def _mod(a, b):
        """a % b"""
        da, db = a.denominator, b.denominator
        return Fraction((a.numerator * db) % (b.numerator * da), da * db)

    __mod__, __rmod__ = _operator_fallbacks(_mod, operator.mod)

    def __pow__(a, b):
        """a ** b

        If b is not an integer, the result will be a float or complex
        since roots are generally irrational. If b is an integer, the
        result will be rational.

        """
        if isinstance(b, numbers.Rational):
            if b.denominator == 1:
                power = b.numerator
                if power >= 0:
                    return Fraction._from_coprime_ints(a._numerator ** power,
                                                       a._denominator ** power)
                elif a._numerator > 0:
                    return Fraction._from_coprime_ints(a._denominator ** -power,
                                                       a._numerator ** -power)
                elif a._numerator == 0:
                    raise ZeroDivisionError('Fraction(%s, 0)' %
                                            a._denominator ** -power)
                else:
                    return Fraction._from_coprime_ints((-a._denominator) ** -power,
                                                       (-a._numerator) ** -power)
            else:
                # A fractional power will generally produce an
                # irrational number.
                return float(a) ** float(b)
        else:
            return float(a) ** b

    def __rpow__(b, a):
        """a ** b"""
        if b._denominator == 1 and b._numerator >= 0:
            # If a is an int, keep it that way if possible.
            return a ** b._numerator

        if isinstance(a, numbers.Rational):
            return Fraction(a.numerator, a.denominator) ** b

        if b._denominator == 1:
            return a ** b._numerator

        return a ** float(b)

    def __pos__(a):
        """+a: Coerces a subclass instance to Fraction"""
        return Fraction._from_coprime_ints(a._numerator, a._denominator)

    def __neg__(a):
        """-a"""
        return Fraction._from_coprime_ints(-a._numerator, a._denominator)

    def __abs__(a):
        """abs(a)"""
        return Fraction._from_coprime_ints(abs(a._numerator), a._denominator)

    def __int__(a, _index=operator.index):
        """int(a)"""
        if a._numerator < 0:
            return _index(-(-a._numerator // a._denominator))
        else:
            return _index(a._numerator // a._denominator)

    def __trunc__(a):
        """math.trunc(a)"""
        if a._numerator < 0:
            return -(-a._numerator // a._denominator)
        else:
            return a._numerator // a._denominator

    def __floor__(a):
        """math.floor(a)"""
        return a._numerator // a._denominator

    def __ceil__(a):
        """math.ceil(a)"""
        # The negations cleverly convince floordiv to return the ceiling.
        return -(-a._numerator // a._denominator)

    def __round__(self, ndigits=None):
        """round(self, ndigits)

        Rounds half toward even.
        """
        if ndigits is None:
            d = self._denominator
            floor, remainder = divmod(self._numerator, d)
            if remainder * 2 < d:
                return floor
            elif remainder * 2 > d:
                return floor + 1
            # Deal with the half case:
            elif floor % 2 == 0:
                return floor
            else:
                return floor + 1
        shift = 10**abs(ndigits)
        # See _operator_fallbacks.forward to check that the results of
        # these operations will always be Fraction and therefore have
        # round().
        if ndigits > 0:
            return Fraction(round(self * shift), shift)
        else:
            return Fraction(round(self / shift) * shift)

    def __hash__(self):
        """hash(self)"""
        return _hash_algorithm(self._numerator, self._denominator)

    def __eq__(a, b):
        """a == b"""
        if type(b) is int:
            return a._numerator == b and a._denominator == 1
        if isinstance(b, numbers.Rational):
            return (a._numerator == b.numerator and
                    a._denominator == b.denominator)
        if isinstance(b, numbers.Complex) and b.imag == 0:
            b = b.real
        if isinstance(b, float):
            if math.isnan(b) or math.isinf(b):
                # comparisons with an infinity or nan should behave in
                # the same way for any finite a, so treat a as zero.
                return 0.0 == b
            else:
                return a == a.from_float(b)
        else:
            # Since a doesn't know how to compare with b, let's give b
            # a chance to compare itself with a.
            return NotImplemented

    def _richcmp(self, other, op):
        """Helper for comparison operators, for internal use only.

        Implement comparison between a Rational instance `self`, and
        either another Rational instance or a float `other`.  If
        `other` is not a Rational instance or a float, return
        NotImplemented. `op` should be one of the six standard
        comparison operators.

        """
        # convert other to a Rational instance where reasonable.
        if isinstance(other, numbers.Rational):
            return op(self._numerator * other.denominator,
                      self._denominator * other.numerator)
        if isinstance(other, float):
            if math.isnan(other) or math.isinf(other):
                return op(0.0, other)
            else:
                return op(self, self.from_float(other))
        else:
            return NotImplemented

    def __lt__(a, b):
        """a < b"""
        return a._richcmp(b, operator.lt)

    def __gt__(a, b):
        """a > b"""
        return a._richcmp(b, operator.gt)

    def __le__(a, b):
        """a <= b"""
        return a._richcmp(b, operator.le)

    def __ge__(a, b):
        """a >= b"""
        return a._richcmp(b, operator.ge)

    def __bool__(a):
        """a != 0"""
        # bpo-39274: Use bool() because (a._numerator != 0) can return an
        # object which is not a bool.
        return bool(a._numerator)

    # support for pickling, copy, and deepcopy

    def __reduce__(self):
        return (self.__class__, (self._numerator, self._denominator))

    def __copy__(self):
        if type(self) == Fraction:
            return self     # I'm immutable; therefore I am my own clone
        return self.__class__(self._numerator, self._denominator)

    def __deepcopy__(self, memo):
        if type(self) == Fraction:
            return self     # My components are also immutable
        return self.__class__(self._numerator, self._denominator)
