#: E401:7
import os, sys
# Okay
import os
import sys

from subprocess import Popen, PIPE

from myclass import MyClass
from foo.bar.yourclass import YourClass

import myclass
import foo.bar.yourclass
# All Okay from here until the definition of VERSION
__all__ = ['abc']

import foo
__version__ = "42"

import foo
__author__ = "Simon Gomizelj"

import foo
try:
    import foo
except ImportError:
    pass
else:
    hello('imported foo')
finally:
    hello('made attempt to import foo')

import bar
VERSION = '1.2.3'

#: E402
import foo
#: E402
import foo
