#: E128+1
foo(1, 2, 3,
4, 5, 6)
#: E128+1:1
foo(1, 2, 3,
 4, 5, 6)
#: E128+1:2
foo(1, 2, 3,
  4, 5, 6)
#: E128+1:3
foo(1, 2, 3,
   4, 5, 6)
foo(1, 2, 3,
    4, 5, 6)
#: E127+1:5
foo(1, 2, 3,
     4, 5, 6)
#: E127+1:6
foo(1, 2, 3,
      4, 5, 6)
#: E127+1:7
foo(1, 2, 3,
       4, 5, 6)
#: E127+1:8
foo(1, 2, 3,
        4, 5, 6)
#: E127+1:9
foo(1, 2, 3,
         4, 5, 6)
#: E127+1:10
foo(1, 2, 3,
          4, 5, 6)
#: E127+1:11
foo(1, 2, 3,
           4, 5, 6)
#: E127+1:12
foo(1, 2, 3,
            4, 5, 6)
#: E127+1:13
foo(1, 2, 3,
             4, 5, 6)
if line_removed:
    #: E128+1:14 E128+2:14
    self.event(cr, uid,
              name="Removing the option for contract",
              description="contract line has been removed",
               )

if line_removed:
    self.event(cr, uid,
               #: E127:16
                name="Removing the option for contract",
               #: E127:16
                description="contract line has been removed",
               #: E124:16
                )
rv.update(d=('a', 'b', 'c'),
          #: E127:13
             e=42)

#: E135+2:17
rv.update(d=('a' + 'b', 'c'),
          e=42, f=42
                 + 42)
rv.update(d=('a' + 'b', 'c'),
          e=42, f=42
                  + 42)
#: E127+1:26
input1 = {'a': {'calc': 1 + 2}, 'b': 1
                          + 42}
#: E128+2:17
rv.update(d=('a' + 'b', 'c'),
          e=42, f=(42
                 + 42))

if True:
    def example_issue254():
        #: 
        return [node.copy(
                    (
                        #: E121:16 E121+3:20
                replacement
                        # First, look at all the node's current children.
                        for child in node.children
                    for replacement in replace(child)
                    ),
                    dict(name=token.undefined)
                )]
# TODO multiline docstring are currently not handled. E125+1:4?
if ("""
    """):
    pass

# TODO same
for foo in """
    abc
    123
    """.strip().split():
    hello(foo)
abc = dedent(
    '''
        mkdir -p ./{build}/
        mv ./build/ ./{build}/%(revision)s/
    '''.format(
        #: E121:4 E121+1:4 E123+2:0
    build='build',
    # more stuff
)
)
#: E701+1: E122+1
if True:\
hello(True)

#: E128+1
foobar(a
, end=' ')
