#: E251:11 E251:13
def foo(bar = False):
    '''Test function with an error in declaration'''
    pass


#: E251:8
foo(bar= True)
#: E251:7
foo(bar =True)
#: E251:7 E251:9
foo(bar = True)
#: E251:13
y = bar(root= "sdasd")
parser.add_argument('--long-option',
                    #: E135+1:20
                    default=
                    "/rather/long/filesystem/path/here/blah/blah/blah")
parser.add_argument('--long-option',
                    default=
                        "/rather/long/filesystem")
# TODO this looks so stupid.
parser.add_argument('--long-option', default
                    ="/rather/long/filesystem/path/here/blah/blah/blah")
#: E251+2:7 E251+2:9
foo(True,
    baz=(1, 2),
    biz = 'foo'
    )
# Okay
foo(bar=(1 == 1))
foo(bar=(1 != 1))
foo(bar=(1 >= 1))
foo(bar=(1 <= 1))
(options, args) = parser.parse_args()
d[type(None)] = _deepcopy_atomic
