if x > 2:
    #: E111:2
  hello(x)
if True:
    #: E111:5
     print
    #: E111:6
      # 
    #: E111:2
  # what
    # Comment is fine
# Comment is also fine

if False:
    pass
print
print
#: E903:0
    print
mimetype = 'application/x-directory'
#: E111:5
     # 'httpd/unix-directory'
create_date = False


def start(self):
    # foo
    #: E111:8
        # bar
    if True:  # Hello
        self.master.start()  # Comment
        # try:
        #: E111:12
            # self.master.start()
        # except MasterExit:
        #: E111:12
            # self.shutdown()
        # finally:
        #: E111:12
            # sys.exit()
    # Dedent to the first level
    #: E111:6
      # error
# Dedent to the base level
#: E111:2
  # Also wrongly indented.
# Indent is correct.


def start(self):  # Correct comment
    if True:
        #: E111:0
#       try:
        #: E111:0
#           self.master.start()
        #: E111:0
#       except MasterExit:
        #: E111:0
#           self.shutdown()
        self.master.start()  # comment
