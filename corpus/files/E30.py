#: E301+4
class X:

    def a():
        pass
    def b():
        pass


#: E301+5
class X:

    def a():
        pass
    # comment
    def b():
        pass


# -*- coding: utf-8 -*-
def a():
    pass


#: E302+1:0
"""Main module."""
def _main():
    pass


#: E302+1:0
foo = 1
def get_sys_path():
    return sys.path


#: E302+3:0
def a():
    pass

def b():
    pass


#: E302+5:0
def a():
    pass

# comment

def b():
    pass


#: E303+3:0
print



#: E303+3:0 E303+4:0
print




print
#: E303+3:0
print



# comment

print


#: E303+3 E303+6
def a():
    print


    # comment


    # another comment

    print


#: E302+2
a = 3
#: E304+1
@decorator

def function():
    pass


#: E303+3
# something



"""This class docstring comes on line 5.
It gives error E303: too many blank lines (3)
"""


#: E302+6
def a():
    print

    # comment

    # another comment
a()


#: E302+7
def a():
    print

    # comment

    # another comment

try:
    a()
except Exception:
    pass


#: E302+4
def a():
    print

# Two spaces before comments, too.
if a():
    a()


#: E301+2
def a():
    x = 1
    def b():
        pass


#: E301+2 E301+4
def a():
    x = 2
    def b():
        x = 1
        def c():
            pass


#: E301+2 E301+4 E301+5
def a():
    x = 1
    class C:
        pass
    x = 2
    def b():
        pass


#: E302+7
# Example from https://github.com/PyCQA/pycodestyle/issues/400
foo = 2


def main():
    blah, blah

if __name__ == '__main__':
    main()
