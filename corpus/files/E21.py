#: E211:4
spam (1)
#: E211:4 E211:19
dict ['key'] = list [index]
#: E211:11
dict['key'] ['subkey'] = list[index]
# Okay
spam(1)
dict['key'] = list[index]


# This is not prohibited by PEP8, but avoid it.
# Dave: I think this is extremely stupid. Use the same convention everywhere.
#: E211:9
class Foo (Bar, Baz):
    pass
