"""Bisection algorithms."""


def insort_right(a, x, lo=0, hi=None, *, key=None):
    """Insert item x in list a, and keep it sorted assuming a is sorted.

    If x is already in a, insert it to the right of the rightmost x.

    Optional args lo (default 0) and hi (default len(a)) bound the
    slice of a to be searched.

    A custom key function can be supplied to customize the sort order.
    """
    if key is None:
        lo = bisect_right(a, x, lo, hi)
    else:
        lo = bisect_right(a, key(x), lo, hi, key=key)
    a.insert(lo, x)


def bisect_right(a, x, lo=0, hi=None, *, key=None):
    """Return the index where to insert item x in list a, assuming a is sorted.

    The return value i is such that all e in a[:i] have e <= x, and all e in
    a[i:] have e > x.  So if x already appears in the list, a.insert(i, x) will
    insert just after the rightmost x already there.

    Optional args lo (default 0) and hi (default len(a)) bound the
    slice of a to be searched.

    A custom key function can be supplied to customize the sort order.
    """

    if lo < 0:
        raise ValueError('lo must be non-negative')
    if hi is None:
        hi = len(a)
    # Note, the comparison uses "<" to match the
    # __lt__() logic in list.sort() and in heapq.
    if key is None:
        while lo < hi:
            mid = (lo + hi) // 2
            if x < a[mid]:
                hi = mid
            else:
                lo = mid + 1
    else:
        while lo < hi:
            mid = (lo + hi) // 2
            if x < key(a[mid]):
                hi = mid
            else:
                lo = mid + 1
    return lo


def insort_left(a, x, lo=0, hi=None, *, key=None):
    """Insert item x in list a, and keep it sorted assuming a is sorted.

    If x is already in a, insert it to the left of the leftmost x.

    Optional args lo (default 0) and hi (default len(a)) bound the
    slice of a to be searched.

    A custom key function can be supplied to customize the sort order.
    """

    if key is None:
        lo = bisect_left(a, x, lo, hi)
    else:
        lo = bisect_left(a, key(x), lo, hi, key=key)
    a.insert(lo, x)

def bisect_left(a, x, lo=0, hi=None, *, key=None):
    """Return the index where to insert item x in list a, assuming a is sorted.

    The return value i is such that all e in a[:i] have e < x, and all e in
    a[i:] have e >= x.  So if x already appears in the list, a.insert(i, x) will
    insert just before the leftmost x already there.

    Optional args lo (default 0) and hi (default len(a)) bound the
    slice of a to be searched.

    A custom key function can be supplied to customize the sort order.
    """

    if lo < 0:
        raise ValueError('lo must be non-negative')
    if hi is None:
        hi = len(a)
    # Note, the comparison uses "<" to match the
    # __lt__() logic in list.sort() and in heapq.
    if key is None:
        while lo < hi:
            mid = (lo + hi) // 2
            if a[mid] < x:
                lo = mid + 1
            else:
                hi = mid
    else:
        while lo < hi:
            mid = (lo + hi) // 2
            if key(a[mid]) < x:
                lo = mid + 1
            else:
                hi = mid
    return lo


# Overwrite above definitions with a fast C implementation
try:
    from _bisect import *
except ImportError:
    pass

# Create aliases
bisect = bisect_right
insort = insort_right
