#: E201:5
spam( ham[1], {eggs: 2})
#: E201:9
spam(ham[ 1], {eggs: 2})
#: E201:14
spam(ham[1], { eggs: 2})

# Okay
spam(ham[1], {eggs: 2})


#: E202:22
spam(ham[1], {eggs: 2} )
#: E202:21
spam(ham[1], {eggs: 2 })
#: E202:10
spam(ham[1 ], {eggs: 2})
# Okay
spam(ham[1], {eggs: 2})

result = func(
    arg1='some value',
    arg2='another value',
)

result = func(
    arg1='some value',
    arg2='another value'
)

result = [
    item for item in items
    if item > 5
]

#: E203:9
if x == 4 :
    foo(x, y)
    x, y = y, x
if x == 4:
    #: E203:12 E702:13
    a = x, y ; x, y = y, x
if x == 4:
    foo(x, y)
    #: E203:12
    x, y = y , x
# Okay
if x == 4:
    foo(x, y)
    x, y = y, x
a[b1, :1] == 3
b = a[:, b1]
