#: E731:4
f = lambda x: 2 * x
while False:
    #: E731:10
    foo = lambda y, z: 2 * x
# Okay
f = object()
f.method = lambda: 'Method'

f = {}
f['a'] = lambda x: x ** 2

f = []
f.append(lambda x: x ** 2)

lambda: 'no-op'
