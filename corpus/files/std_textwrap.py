"""Text wrapping and filling.
"""

# Copyright (C) 1999-2001 Gregory P. Ward.
# Copyright (C) 2002, 2003 Python Software Foundation.
# Written by Greg Ward <gward@python.net>

import re

__all__ = ['TextWrapper', 'wrap', 'fill', 'dedent', 'indent', 'shorten']

# Hardcode the recognized whitespace characters to the US-ASCII
# whitespace characters.  The main reason for doing this is that
# some Unicode spaces (like \u00a0) are non-breaking whitespaces.
_whitespace = '\t\n\x0b\x0c\r '

class TextWrapper:
    """
    Object for wrapping/filling text.  The public interface consists of
    the wrap() and fill() methods; the other methods are just there for
    subclasses to override in order to tweak the default behaviour.
    If you want to completely replace the main wrapping algorithm,
    you'll probably have to override _wrap_chunks().

    Several instance attributes control various aspects of wrapping:
      width (default: 70)
        the maximum width of wrapped lines (unless break_long_words
        is false)
      initial_indent (default: "")
        string that will be prepended to the first line of wrapped
        output.  Counts towards the line's width.
      subsequent_indent (default: "")
        string that will be prepended to all lines save the first
        of wrapped output; also counts towards each line's width.
      expand_tabs (default: true)
        Expand tabs in input text to spaces before further processing.
        Each tab will become 0 .. 'tabsize' spaces, depending on its position
        in its line.  If false, each tab is treated as a single character.
      tabsize (default: 8)
        Expand tabs in input text to 0 .. 'tabsize' spaces, unless
        'expand_tabs' is false.
      replace_whitespace (default: true)
        Replace all whitespace characters in the input text by spaces
        after tab expansion.  Note that if expand_tabs is false and
        replace_whitespace is true, every tab will be converted to a
        single space!
      fix_sentence_endings (default: false)
        Ensure that sentence-ending punctuation is always followed
        by two spaces.  Off by default because the algorithm is
        (unavoidably) imperfect.
      break_long_words (default: true)
        Break words longer than 'width'.  If false, those words will not
        be broken, and some lines might be longer than 'width'.
      break_on_hyphens (default: true)
        Allow breaking hyphenated words. If true, wrapping will occur
        preferably on whitespaces and right after hyphens part of
        compound words.
      drop_whitespace (default: true)
        Drop leading and trailing whitespace from lines.
      max_lines (default: None)
        Truncate wrapped lines.
      placeholder (default: ' [...]')
        Append to the last line of truncated text.
    """

    unicode_whitespace_trans = dict.fromkeys(map(ord, _whitespace), ord(' '))

    # This funky little regex is just the trick for splitting
    # text up into word-wrappable chunks.  E.g.
    #   "Hello there -- you goof-ball, use the -b option!"
    # splits into
    #   Hello/ /there/ /--/ /you/ /goof-/ball,/ /use/ /the/ /-b/ /option!
    # (after stripping out empty strings).
    word_punct = r'[\w!"\'&.,?]'
    letter = r'[^\d\W]'
    whitespace = r'[%s]' % re.escape(_whitespace)
    nowhitespace = '[^' + whitespace[1:]
    wordsep_re = re.compile(r'''
        ( # any whitespace
          %(ws)s+
        | # em-dash between words
          (?<=%(wp)s) -{2,} (?=\w)
        | # word, possibly hyphenated
          %(nws)s+? (?:
            # hyphenated word
              -(?: (?<=%(lt)s{2}-) | (?<=%(lt)s-%(lt)s-))
              (?= %(lt)s -? %(lt)s)
            | # end of word
              (?=%(ws)s|\Z)
            | # em-dash
              (?<=%(wp)s) (?=-{2,}\w)
            )
        )''' % {'wp': word_punct, 'lt': letter,
                'ws': whitespace, 'nws': nowhitespace},
        re.VERBOSE)
    del word_punct, letter, nowhitespace

    # This less funky little regex just split on recognized spaces. E.g.
    #   "Hello there -- you goof-ball, use the -b option!"
    # splits into
    #   Hello/ /there/ /--/ /you/ /goof-ball,/ /use/ /the/ /-b/ /option!/
    wordsep_simple_re = re.compile(r'(%s+)' % whitespace)
    del whitespace

    # XXX this is not locale- or charset-aware -- string.lowercase
    # is US-ASCII only (and therefore English-only)
    sentence_end_re = re.compile(r'[a-z]'             # lowercase letter
                                 r'[\.\!\?]'          # sentence-ending punct.
                                 r'[\"\']?'           # optional end-of-quote
                                 r'\Z')               # end of chunk

    def __init__(self,
                 width=70,
                 initial_indent="",
                 subsequent_indent="",
                 expand_tabs=True,
                 replace_whitespace=True,
                 fix_sentence_endings=False,
                 break_long_words=True,
                 drop_whitespace=True,
                 break_on_hyphens=True,
                 tabsize=8,
                 *,
                 max_lines=None,
                 placeholder=' [...]'):
        self.width = width
        self.initial_indent = initial_indent
        self.subsequent_indent = subsequent_indent
        self.expand_tabs = expand_tabs
        self.replace_whitespace = replace_whitespace
        self.fix_sentence_endings = fix_sentence_endings
        self.break_long_words = break_long_words
        self.drop_whitespace = drop_whitespace
        self.break_on_hyphens = break_on_hyphens
        self.tabsize = tabsize
        self.max_lines = max_lines
        self.placeholder = placeholder


    # -- Private methods -----------------------------------------------
    # (possibly useful for subclasses to override)

    def _munge_whitespace(self, text):
        """_munge_whitespace(text : string) -> string

        Munge whitespace in text: expand tabs and convert all other
        whitespace characters to spaces.  Eg. " foo\\tbar\\n\\nbaz"
        becomes " foo    bar  baz".
        """
        if self.expand_tabs:
            text = text.expandtabs(self.tabsize)
        if self.replace_whitespace:
            text = text.translate(self.unicode_whitespace_trans)
        return text


    def _split(self, text):
        """_split(text : string) -> [string]

        Split the text to wrap into indivisible chunks.  Chunks are
        not quite the same as words; see _wrap_chunks() for full
        details.  As an example, the text
          Look, goof-ball -- use the -b option!
        breaks into the following chunks:
          'Look,', ' ', 'goof-', 'ball', ' ', '--', ' ',
          'use', ' ', 'the', ' ', '-b', ' ', 'option!'
        if break_on_hyphens is True, or in:
          'Look,', ' ', 'goof-ball', ' ', '--', ' ',
          'use', ' ', 'the', ' ', '-b', ' ', option!'
        otherwise.
        """
        if self.break_on_hyphens is True:
            chunks = self.wordsep_re.split(text)
        else:
            chunks = self.wordsep_simple_re.split(text)
        chunks = [c for c in chunks if c]
        return chunks

    def _fix_sentence_endings(self, chunks):
        """_fix_sentence_endings(chunks : [string])

        Correct for sentence endings buried in 'chunks'.  Eg. when the
        original text contains "... foo.\\nBar ...", munge_whitespace()
        and split() will convert that to [..., "foo.", " ", "Bar", ...]
        which has one too few spaces; this method simply changes the one
        space to two.
        """
        i = 0
        patsearch = self.sentence_end_re.search
        while i < len(chunks)-1:
            if chunks[i+1] == " " and patsearch(chunks[i]):
                chunks[i+1] = "  "
                i += 2
            else:
                i += 1

    def _handle_long_word(self, reversed_chunks, cur_line, cur_len, width):
        """_handle_long_word(chunks : [string],
                             cur_line : [string],
                             cur_len : int, width : int)

        Handle a chunk of text (most likely a word, not whitespace) that
        is too long to fit in any line.
        """
        # Figure out when indent is larger than the specified width, and make
        # sure at least one character is stripped off on every pass
        if width < 1:
            space_left = 1
        else:
            space_left = width - cur_len

        # If we're allowed to break long words, then do so: put as much
        # of the next chunk onto the current line as will fit.
        if self.break_long_words:
            end = space_left
            chunk = reversed_chunks[-1]
            if self.break_on_hyphens and len(chunk) > space_left:
                # break after last hyphen, but only if there are
                # non-hyphens before it
                hyphen = chunk.rfind('-', 0, space_left)
                if hyphen > 0 and any(c != '-' for c in chunk[:hyphen]):
                    end = hyphen + 1
            cur_line.append(chunk[:end])
            reversed_chunks[-1] = chunk[end:]

        # Otherwise, we have to preserve the long word intact.  Only add
        # it to the current line if there's nothing already there --
        # that minimizes how much we violate the width constraint.
        elif not cur_line:
            cur_line.append(reversed_chunks.pop())

        # If we're not allowed to break long words, and there's already
        # text on the current line, do nothing.  Next time through the
        # main loop of _wrap_chunks(), we'll wind up here again, but
        # cur_len will be zero, so the next line will be entirely
        # devoted to the long word that we can't handle right now.

    def _wrap_chunks(self, chunks):
        """_wrap_chunks(chunks : [string]) -> [string]

        Wrap a sequence of text chunks and return a list of lines of
        length 'self.width' or less.  (If 'break_long_words' is false,
        some lines may be longer than this.)  Chunks correspond roughly
        to words and the whitespace between them: each chunk is
        indivisible (modulo 'break_long_words'), but a line break can
        come between any two chunks.  Chunks should not have internal
        whitespace; ie. a chunk is either all whitespace or a "word".
        Whitespace chunks will be removed from the beginning and end of
        lines, but apart from that whitespace is preserved.
        """
        lines = []
        if self.width <= 0:
            raise ValueError("invalid width %r (must be > 0)" % self.width)
        if self.max_lines is not None:
            if self.max_lines > 1:
                indent = self.subsequent_indent
            else:
                indent = self.initial_indent
            if len(indent) + len(self.placeholder.lstrip()) > self.width:
                raise ValueError("placeholder too large for max width")

        # Arrange in reverse order so items can be efficiently popped
        # from a stack of chucks.
        chunks.reverse()

        while chunks:

            # Start the list of chunks that will make up the current line.
            # cur_len is just the length of all the chunks in cur_line.
            cur_line = []
            cur_len = 0

            # Figure out which static string will prefix this line.
            if lines:
                indent = self.subsequent_indent
            else:
                indent = self.initial_indent

            # Maximum width for this line.
            width = self.width - len(indent)

            # First chunk on line is whitespace -- drop it, unless this
            # is the very beginning of the text (ie. no lines started yet).
            if self.drop_whitespace and chunks[-1].strip() == '' and lines:
                del chunks[-1]

            while chunks:
                l = len(chunks[-1])

                # Can at least squeeze this chunk onto the current line.
                if cur_len + l <= width:
                    cur_line.append(chunks.pop())
                    cur_len += l

                # Nope, this line is full.
                else:
                    break

            # The current line is full, and the next chunk is too big to
            # fit on *any* line (not just this one).
            if chunks and len(chunks[-1]) > width:
                self._handle_long_word(chunks, cur_line, cur_len, width)
                cur_len = sum(map(len, cur_line))

            # If the last chunk on this line is all whitespace, drop it.
            if self.drop_whitespace and cur_line and cur_line[-1].strip() == '':
                cur_len -= len(cur_line[-1])
                del cur_line[-1]

            if cur_line:
                if (self.max_lines is None or
                    len(lines) + 1 < self.max_lines or
                    (not chunks or
                     self.drop_whitespace and
                     len(chunks) == 1 and
                     not chunks[0].strip()) and cur_len <= width):
                    # Convert current line back to a string and store it in
                    # list of all lines (return value).
                    lines.append(indent + ''.join(cur_line))
                else:
                    while cur_line:
                        if (cur_line[-1].strip() and
                            cur_len + len(self.placeholder) <= width):
                            cur_line.append(self.placeholder)
                            lines.append(indent + ''.join(cur_line))
                            break
                        cur_len -= len(cur_line[-1])
                        del cur_line[-1]
                    else:
                        if lines:
                            prev_line = lines[-1].rstrip()
                            if (len(prev_line) + len(self.placeholder) <=
                                    self.width):
                                lines[-1] = prev_line + self.placeholder
                                break
                        lines.append(indent + self.placeholder.lstrip())
                    break

        return lines

    def _split_chunks(self, text):
        text = self._munge_whitespace(text)
        return self._split(text)

    # -- Public interface ----------------------------------------------

    def wrap(self, text):
        """wrap(text : string) -> [string]

        Reformat the single paragraph in 'text' so it fits in lines of
        no more than 'self.width' columns, and return a list of wrapped
        lines.  Tabs in 'text' are expanded with string.expandtabs(),
        and all other whitespace characters (including newline) are
        converted to space.
        """
        chunks = self._split_chunks(text)
        if self.fix_sentence_endings:
            self._fix_sentence_endings(chunks)
        return self._wrap_chunks(chunks)

    def fill(self, text):
        """fill(text : string) -> string

        Reformat the single paragraph in 'text' to fit in lines of no
        more than 'self.width' columns, and return a new string
        containing the entire wrapped paragraph.
        """
        return "\n".join(self.wrap(text))


# -- Convenience interface ---------------------------------------------

def wrap(text, width=70, **kwargs):
    """Wrap a single paragraph of text, returning a list of wrapped lines.

    Reformat the single paragraph in 'text' so it fits in lines of no
    more than 'width' columns, and return a list of wrapped lines.  By
    default, tabs in 'text' are expanded with string.expandtabs(), and
    all other whitespace characters (including newline) are converted to
    space.  See TextWrapper class for available keyword args to customize
    wrapping behaviour.
    """
    w = TextWrapper(width=width, **kwargs)
    return w.wrap(text)

def fill(text, width=70, **kwargs):
    """Fill a single paragraph of text, returning a new string.

    Reformat the single paragraph in 'text' to fit in lines of no more
    than 'width' columns, and return a new string containing the entire
    wrapped paragraph.  As with wrap(), tabs are expanded and other
    whitespace characters converted to space.  See TextWrapper class for
    available keyword args to customize wrapping behaviour.
    """
    w = TextWrapper(width=width, **kwargs)
    return w.fill(text)

def shorten(text, width, **kwargs):
    """Collapse and truncate the given text to fit in the given width.

    The text first has its whitespace collapsed.  If it then fits in
    the *width*, it is returned as is.  Otherwise, as many words
    as possible are joined and then the placeholder is appended::

        >>> textwrap.shorten("Hello  world!", width=12)
        'Hello world!'
        >>> textwrap.shorten("Hello  world!", width=11)
        'Hello [...]'
    """
    w = TextWrapper(width=width, max_lines=1, **kwargs)
    return w.fill(' '.join(text.strip().split()))


# -- Loosely related functionality -------------------------------------

_whitespace_only_re = re.compile('^[ \t]+$', re.MULTILINE)
_leading_whitespace_re = re.compile('(^[ \t]*)(?:[^ \t\n])', re.MULTILINE)

def dedent(text):
    """Remove any common leading whitespace from every line in `text`.

    This can be used to make triple-quoted strings line up with the left
    edge of the display, while still presenting them in the source code
    in indented form.

    Note that tabs and spaces are both treated as whitespace, but they
    are not equal: the lines "  hello" and "\\thello" are
    considered to have no common leading whitespace.

    Entirely blank lines are normalized to a newline character.
    """
    # Look for the longest leading string of spaces and tabs common to
    # all lines.
    margin = None
    text = _whitespace_only_re.sub('', text)
    indents = _leading_whitespace_re.findall(text)
    for indent in indents:
        if margin is None:
            margin = indent

        # Current line more deeply indented than previous winner:
        # no change (previous winner is still on top).
        elif indent.startswith(margin):
            pass

        # Current line consistent with and no deeper than previous winner:
        # it's the new winner.
        elif margin.startswith(indent):
            margin = indent

        # Find the largest common whitespace between current line and previous
        # winner.
        else:
            for i, (x, y) in enumerate(zip(margin, indent)):
                if x != y:
                    margin = margin[:i]
                    break

    # sanity check (testing/debugging only)
    if 0 and margin:
        for line in text.split("\n"):
            assert not line or line.startswith(margin), \
                   "line = %r, margin = %r" % (line, margin)

    if margin:
        text = re.sub(r'(?m)^' + margin, '', text)
    return text


def indent(text, prefix, predicate=None):
    """Adds 'prefix' to the beginning of selected lines in 'text'.

    If 'predicate' is provided, 'prefix' will only be added to the lines
    where 'predicate(line)' is True. If 'predicate' is not provided,
    it will default to adding 'prefix' to all non-empty lines that do not
    consist solely of whitespace characters.
    """
    if predicate is None:
        def predicate(line):
            return line.strip()

    def prefixed_lines():
        for line in text.splitlines(True):
            yield (prefix + line if predicate(line) else line)
    return ''.join(prefixed_lines())


if __name__ == "__main__":
    #print dedent("\tfoo\n\tbar")
    #print dedent("  \thello there\n  \t  how are you?")
    print(dedent("Hello there.\n  This is indented."))
