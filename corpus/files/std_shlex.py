"""A lexical analyzer class for simple shell-like syntaxes."""

# Module and documentation by Eric S. Raymond, 21 Dec 1998
# Input stacking and error message cleanup added by ESR, March 2000
# push_source() and pop_source() made explicit by ESR, January 2001.
# Posix compliance, split(), string arguments, and
# iterator interface by Gustavo Niemeyer, April 2003.
# changes to tokenize more like Posix shells by Vinay Sajip, July 2016.

import os
import re
import sys
from collections import deque

from io import StringIO

__all__ = ["shlex", "split", "quote", "join"]

class shlex:
    "A lexical analyzer class for simple shell-like syntaxes."
    def __init__(self, instream=None, infile=None, posix=False,
                 punctuation_chars=False):
        if isinstance(instream, str):
            instream = StringIO(instream)
        if instream is not None:
            self.instream = instream
            self.infile = infile
        else:
            self.instream = sys.stdin
            self.infile = None
        self.posix = posix
        if posix:
            self.eof = None
        else:
            self.eof = ''
        self.commenters = '#'
        self.wordchars = ('abcdfeghijklmnopqrstuvwxyz'
                          'ABCDEFGHIJKLMNOPQRSTUVWXYZ0123456789_')
        if self.posix:
            self.wordchars += ('ßàáâãäåæçèéêëìíîïðñòóôõöøùúûüýþÿ'
                               'ÀÁÂÃÄÅÆÇÈÉÊËÌÍÎÏÐÑÒÓÔÕÖØÙÚÛÜÝÞ')
        self.whitespace = ' \t\r\n'
        self.whitespace_split = False
        self.quotes = '\'"'
        self.escape = '\\'
        self.escapedquotes = '"'
        self.state = ' '
        self.pushback = deque()
        self.lineno = 1
        self.debug = 0
        self.token = ''
        self.filestack = deque()
        self.source = None
        if not punctuation_chars:
            punctuation_chars = ''
        elif punctuation_chars is True:
            punctuation_chars = '();<>|&'
        self._punctuation_chars = punctuation_chars
        if punctuation_chars:
            # _pushback_chars is a push back queue used by lookahead logic
            self._pushback_chars = deque()
            # these chars added because allowed in file names, args, wildcards
            self.wordchars += '~-./*?='
            #remove any punctuation chars from wordchars
            t = self.wordchars.maketrans(dict.fromkeys(punctuation_chars))
            self.wordchars = self.wordchars.translate(t)

    @property
    def punctuation_chars(self):
        return self._punctuation_chars

    def push_token(self, tok):
        "Push a token onto the stack popped by the get_token method"
        if self.debug >= 1:
            print("shlex: pushing token " + repr(tok))
        self.pushback.appendleft(tok)

    def push_source(self, newstream, newfile=None):
        "Push an input source onto the lexer's input source stack."
        if isinstance(newstream, str):
            newstream = StringIO(newstream)
        self.filestack.appendleft((self.infile, self.instream, self.lineno))
        self.infile = newfile
        self.instream = newstream
        self.lineno = 1
        if self.debug:
            if newfile is not None:
                print('shlex: pushing to file %s' % (self.infile,))
            else:
                print('shlex: pushing to stream %s' % (self.instream,))

    def pop_source(self):
        "Pop the input source stack."
        self.instream.close()
        (self.infile, self.instream, self.lineno) = self.filestack.popleft()
        if self.debug:
            print('shlex: popping to %s, line %d' \
                  % (self.instream, self.lineno))
        self.state = ' '

    def get_token(self):
        "Get a token from the input stream (or from stack if it's nonempty)"
        if self.pushback:
            tok = self.pushback.popleft()
            if self.debug >= 1:
                print("shlex: popping token " + repr(tok))
            return tok
        # No pushback.  Get a token.
        raw = self.read_token()
        # Handle inclusions
        if self.source is not None:
            while raw == self.source:
                spec = self.sourcehook(self.read_token())
                if spec:
                    (newfile, newstream) = spec
                    self.push_source(newstream, newfile)
                raw = self.get_token()
        # Maybe we got EOF instead?
        while raw == self.eof:
            if not self.filestack:
                return self.eof
            else:
                self.pop_source()
                raw = self.get_token()
        # Neither inclusion nor EOF
        if self.debug >= 1:
            if raw != self.eof:
                print("shlex: token=" + repr(raw))
            else:
                print("shlex: token=EOF")
        return raw

    def read_token(self):
        quoted = False
        escapedstate = ' '
        while True:
            if self.punctuation_chars and self._pushback_chars:
                nextchar = self._pushback_chars.pop()
            else:
                nextchar = self.instream.read(1)
            if nextchar == '\n':
                self.lineno += 1
            if self.debug >= 3:
                print("shlex: in state %r I see character: %r" % (self.state,
                                                                  nextchar))
            if self.state is None:
                self.token = ''        # past end of file
                break
            elif self.state == ' ':
                if not nextchar:
                    self.state = None  # end of file
                    break
                elif nextchar in self.whitespace:
                    if self.debug >= 2:
                        print("shlex: I see whitespace in whitespace state")
                    if self.token or (self.posix and quoted):
                        break   # emit current token
                    else:
                        continue
                elif nextchar in self.commenters:
                    self.instream.readline()
                    self.lineno += 1
                elif self.posix and nextchar in self.escape:
                    escapedstate = 'a'
                    self.state = nextchar
                elif nextchar in self.wordchars:
                    self.token = nextchar
                    self.state = 'a'
                elif nextchar in self.punctuation_chars:
                    self.token = nextchar
                    self.state = 'c'
                elif nextchar in self.quotes:
                    if not self.posix:
                        self.token = nextchar
                    self.state = nextchar
                elif self.whitespace_split:
                    self.token = nextchar
                    self.state = 'a'
                else:
                    self.token = nextchar
                    if self.token or (self.posix and quoted):
                        break   # emit current token
                    else:
                        continue
            elif self.state in self.quotes:
                quoted = True
                if not nextchar:      # end of file
                    if self.debug >= 2:
                        print("shlex: I see EOF in quotes state")
                    # XXX what error should be raised here?
                    raise ValueError("No closing quotation")
                if nextchar == self.state:
                    if not self.posix:
                        self.token += nextchar
                        self.state = ' '
                        break
                    else:
                        self.state = 'a'
                elif (self.posix and nextchar in self.escape and self.state
                      in self.escapedquotes):
                    escapedstate = self.state
                    self.state = nextchar
                else:
                    self.token += nextchar
            elif self.state in self.escape:
                if not nextchar:      # end of file
                    if self.debug >= 2:
                        print("shlex: I see EOF in escape state")
                    # XXX what error should be raised here?
                    raise ValueError("No escaped character")
                # In posix shells, only the quote itself or the escape
                # character may be escaped within quotes.
                if (escapedstate in self.quotes and
                        nextchar != self.state and nextchar != escapedstate):
                    self.token += self.state
                self.token += nextchar
                self.state = escapedstate
            elif self.state in ('a', 'c'):
                if not nextchar:
                    self.state = None   # end of file
                    break
                elif nextchar in self.whitespace:
                    if self.debug >= 2:
                        print("shlex: I see whitespace in word state")
                    self.state = ' '
                    if self.token or (self.posix and quoted):
                        break   # emit current token
                    else:
                        continue
                elif nextchar in self.commenters:
                    self.instream.readline()
                    self.lineno += 1
                    if self.posix:
                        self.state = ' '
                        if self.token or (self.posix and quoted):
                            break   # emit current token
                        else:
                            continue
                elif self.state == 'c':
                    if nextchar in self.punctuation_chars:
                        self.token += nextchar
                    else:
                        if nextchar not in self.whitespace:
                            self._pushback_chars.append(nextchar)
                        self.state = ' '
                        break
                elif self.posix and nextchar in self.quotes:
                    self.state = nextchar
                elif self.posix and nextchar in self.escape:
                    escapedstate = 'a'
                    self.state = nextchar
                elif (nextchar in self.wordchars or nextchar in self.quotes
                      or (self.whitespace_split and
                          nextchar not in self.punctuation_chars)):
                    self.token += nextchar
                else:
                    if self.punctuation_chars:
                        self._pushback_chars.append(nextchar)
                    else:
                        self.pushback.appendleft(nextchar)
                    if self.debug >= 2:
                        print("shlex: I see punctuation in word state")
                    self.state = ' '
                    if self.token or (self.posix and quoted):
                        break   # emit current token
                    else:
                        continue
        result = self.token
        self.token = ''
        if self.posix and not quoted and result == '':
            result = None
        if self.debug > 1:
            if result:
                print("shlex: raw token=" + repr(result))
            else:
                print("shlex: raw token=EOF")
        return result

    def sourcehook(self, newfile):
        "Hook called on a filename to be sourced."
        if newfile[0] == '"':
            newfile = newfile[1:-1]
        # This implements cpp-like semantics for relative-path inclusion.
        if isinstance(self.infile, str) and not os.path.isabs(newfile):
            newfile = os.path.join(os.path.dirname(self.infile), newfile)
        return (newfile, open(newfile, "r"))

    def error_leader(self, infile=None, lineno=None):
        "Emit a C-compiler-like, Emacs-friendly error-message leader."
        if infile is None:
            infile = self.infile
        if lineno is None:
            lineno = self.lineno
        return "\"%s\", line %d: " % (infile, lineno)

    def __iter__(self):
        return self

    def __next__(self):
        token = self.get_token()
        if token == self.eof:
            raise StopIteration
        return token

def split(s, comments=False, posix=True):
    """Split the string *s* using shell-like syntax."""
    if s is None:
        raise ValueError("s argument must not be None")
    lex = shlex(s, posix=posix)
    lex.whitespace_split = True
    if not comments:
        lex.commenters = ''
    return list(lex)


def join(split_command):
    """Return a shell-escaped string from *split_command*."""
    return ' '.join(quote(arg) for arg in split_command)


_find_unsafe = re.compile(r'[^\w@%+=:,./-]', re.ASCII).search

def quote(s):
    """Return a shell-escaped version of the string *s*."""
    if not s:
        return "''"
    if _find_unsafe(s) is None:
        return s

    # use single quotes, and put single quotes into double quotes
    # the string $'b is then quoted as '$'"'"'b'
    return "'" + s.replace("'", "'\"'\"'") + "'"


def _print_tokens(lexer):
    while tt := lexer.get_token():
        print("Token: " + repr(tt))

if __name__ == '__main__':
    if len(sys.argv) == 1:
        _print_tokens(shlex())
    else:
        fn = sys.argv[1]
        with open(fn) as f:
            _print_tokens(shlex(f, fn))
