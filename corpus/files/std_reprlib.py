"""Redo the builtin repr() (representation) but with limits on most sizes."""

__all__ = ["Repr", "repr", "recursive_repr"]

import builtins
from itertools import islice
from _thread import get_ident

def recursive_repr(fillvalue='...'):
    'Decorator to make a repr function return fillvalue for a recursive call'

    def decorating_function(user_function):
        repr_running = set()

        def wrapper(self):
            key = id(self), get_ident()
            if key in repr_running:
                return fillvalue
            repr_running.add(key)
            try:
                result = user_function(self)
            finally:
                repr_running.discard(key)
            return result

        # Can't use functools.wraps() here because of bootstrap issues
        wrapper.__module__ = getattr(user_function, '__module__')
        wrapper.__doc__ = getattr(user_function, '__doc__')
        wrapper.__name__ = getattr(user_function, '__name__')
        wrapper.__qualname__ = getattr(user_function, '__qualname__')
        wrapper.__annotations__ = getattr(user_function, '__annotations__', {})
        wrapper.__type_params__ = getattr(user_function, '__type_params__', ())
        return wrapper

    return decorating_function

class Repr:

    def __init__(
        self, *, maxlevel=6, maxtuple=6, maxlist=6, maxarray=5, maxdict=4,
        maxset=6, maxfrozenset=6, maxdeque=6, maxstring=30, maxlong=40,
        maxother=30, fillvalue='...', indent=None,
    ):
        self.maxlevel = maxlevel
        self.maxtuple = maxtuple
        self.maxlist = maxlist
        self.maxarray = maxarray
        self.maxdict = maxdict
        self.maxset = maxset
        self.maxfrozenset = maxfrozenset
        self.maxdeque = maxdeque
        self.maxstring = maxstring
        self.maxlong = maxlong
        self.maxother = maxother
        self.fillvalue = fillvalue
        self.indent = indent

    def repr(self, x):
        return self.repr1(x, self.maxlevel)

    def repr1(self, x, level):
        typename = type(x).__name__
        if ' ' in typename:
            parts = typename.split()
            typename = '_'.join(parts)
        if hasattr(self, 'repr_' + typename):
            return getattr(self, 'repr_' + typename)(x, level)
        else:
            return self.repr_instance(x, level)

    def _join(self, pieces, level):
        if self.indent is None:
            return ', '.join(pieces)
        if not pieces:
            return ''
        indent = self.indent
        if isinstance(indent, int):
            if indent < 0:
                raise ValueError(
                    f'Repr.indent cannot be negative int (was {indent!r})'
                )
            indent *= ' '
        try:
            sep = ',\n' + (self.maxlevel - level + 1) * indent
        except TypeError as error:
            raise TypeError(
                f'Repr.indent must be a str, int or None, not {type(indent)}'
            ) from error
        return sep.join(('', *pieces, ''))[1:-len(indent) or None]

    def _repr_iterable(self, x, level, left, right, maxiter, trail=''):
        n = len(x)
        if level <= 0 and n:
            s = self.fillvalue
        else:
            newlevel = level - 1
            repr1 = self.repr1
            pieces = [repr1(elem, newlevel) for elem in islice(x, maxiter)]
            if n > maxiter:
                pieces.append(self.fillvalue)
            s = self._join(pieces, level)
            if n == 1 and trail and self.indent is None:
                right = trail + right
        return '%s%s%s' % (left, s, right)

    def repr_tuple(self, x, level):
        return self._repr_iterable(x, level, '(', ')', self.maxtuple, ',')

    def repr_list(self, x, level):
        return self._repr_iterable(x, level, '[', ']', self.maxlist)

    def repr_array(self, x, level):
        if not x:
            return "array('%s')" % x.typecode
        header = "array('%s', [" % x.typecode
        return self._repr_iterable(x, level, header, '])', self.maxarray)

    def repr_set(self, x, level):
        if not x:
            return 'set()'
        x = _possibly_sorted(x)
        return self._repr_iterable(x, level, '{', '}', self.maxset)

    def repr_frozenset(self, x, level):
        if not x:
            return 'frozenset()'
        x = _possibly_sorted(x)
        return self._repr_iterable(x, level, 'frozenset({', '})',
                                   self.maxfrozenset)

    def repr_deque(self, x, level):
        return self._repr_iterable(x, level, 'deque([', '])', self.maxdeque)

    def repr_dict(self, x, level):
        n = len(x)
        if n == 0:
            return '{}'
        if level <= 0:
            return '{' + self.fillvalue + '}'
        newlevel = level - 1
        repr1 = self.repr1
        pieces = []
        for key in islice(_possibly_sorted(x), self.maxdict):
            keyrepr = repr1(key, newlevel)
            valrepr = repr1(x[key], newlevel)
            pieces.append('%s: %s' % (keyrepr, valrepr))
        if n > self.maxdict:
            pieces.append(self.fillvalue)
        s = self._join(pieces, level)
        return '{%s}' % (s,)

    def repr_str(self, x, level):
        s = builtins.repr(x[:self.maxstring])
        if len(s) > self.maxstring:
            i = max(0, (self.maxstring-3)//2)
            j = max(0, self.maxstring-3-i)
            s = builtins.repr(x[:i] + x[len(x)-j:])
            s = s[:i] + self.fillvalue + s[len(s)-j:]
        return s

    def repr_int(self, x, level):
        s = builtins.repr(x) # XXX Hope this isn't too slow...
        if len(s) > self.maxlong:
            i = max(0, (self.maxlong-3)//2)
            j = max(0, self.maxlong-3-i)
            s = s[:i] + self.fillvalue + s[len(s)-j:]
        return s

    def repr_instance(self, x, level):
        try:
            s = builtins.repr(x)
            # Bugs in x.__repr__() can cause arbitrary
            # exceptions -- then make up something
        except Exception:
            return '<%s instance at %#x>' % (x.__class__.__name__, id(x))
        if len(s) > self.maxother:
            i = max(0, (self.maxother-3)//2)
            j = max(0, self.maxother-3-i)
            s = s[:i] + self.fillvalue + s[len(s)-j:]
        return s


def _possibly_sorted(x):
    # Since not all sequences of items can be sorted and comparison
    # functions may raise arbitrary exceptions, return an unsorted
    # sequence in that case.
    try:
        return sorted(x)
    except Exception:
        return list(x)

aRepr = Repr()
repr = aRepr.repr
