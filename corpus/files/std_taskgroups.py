# Adapted with permission from the EdgeDB project;
# license: PSFL.


__all__ = ("TaskGroup",)

from . import events
from . import exceptions
from . import tasks


class TaskGroup:
    """Asynchronous context manager for managing groups of tasks.

    Example use:

        async with asyncio.TaskGroup() as group:
            task1 = group.create_task(some_coroutine(...))
            task2 = group.create_task(other_coroutine(...))
        print("Both tasks have completed now.")

    All tasks are awaited when the context manager exits.

    Any exceptions other than `asyncio.CancelledError` raised within
    a task will cancel all remaining tasks and wait for them to exit.
    The exceptions are then combined and raised as an `ExceptionGroup`.
    """
    def __init__(self):
        self._entered = False
        self._exiting = False
        self._aborting = False
        self._loop = None
        self._parent_task = None
        self._parent_cancel_requested = False
        self._tasks = set()
        self._errors = []
        self._base_error = None
        self._on_completed_fut = None

    def __repr__(self):
        info = ['']
        if self._tasks:
            info.append(f'tasks={len(self._tasks)}')
        if self._errors:
            info.append(f'errors={len(self._errors)}')
        if self._aborting:
            info.append('cancelling')
        elif self._entered:
            info.append('entered')

        info_str = ' '.join(info)
        return f'<TaskGroup{info_str}>'

    async def __aenter__(self):
        if self._entered:
            raise RuntimeError(
                f"TaskGroup {self!r} has already been entered")
        if self._loop is None:
            self._loop = events.get_running_loop()
        self._parent_task = tasks.current_task(self._loop)
        if self._parent_task is None:
            raise RuntimeError(
                f'TaskGroup {self!r} cannot determine the parent task')
        self._entered = True

        return self

    async def __aexit__(self, et, exc, tb):
        self._exiting = True

        if (exc is not None and
                self._is_base_error(exc) and
                self._base_error is None):
            self._base_error = exc

        propagate_cancellation_error = \
            exc if et is exceptions.CancelledError else None
        if self._parent_cancel_requested:
            # If this flag is set we *must* call uncancel().
            if self._parent_task.uncancel() == 0:
                # If there are no pending cancellations left,
                # don't propagate CancelledError.
                propagate_cancellation_error = None

        if et is not None:
            if not self._aborting:
                # Our parent task is being cancelled:
                #
                #    async with TaskGroup() as g:
                #        g.create_task(...)
                #        await ...  # <- CancelledError
                #
                # or there's an exception in "async with":
                #
                #    async with TaskGroup() as g:
                #        g.create_task(...)
                #        1 / 0
                #
                self._abort()

        # We use while-loop here because "self._on_completed_fut"
        # can be cancelled multiple times if our parent task
        # is being cancelled repeatedly (or even once, when
        # our own cancellation is already in progress)
        while self._tasks:
            if self._on_completed_fut is None:
                self._on_completed_fut = self._loop.create_future()

            try:
                await self._on_completed_fut
            except exceptions.CancelledError as ex:
                if not self._aborting:
                    # Our parent task is being cancelled:
                    #
                    #    async def wrapper():
                    #        async with TaskGroup() as g:
                    #            g.create_task(foo)
                    #
                    # "wrapper" is being cancelled while "foo" is
                    # still running.
                    propagate_cancellation_error = ex
                    self._abort()

            self._on_completed_fut = None

        assert not self._tasks

        if self._base_error is not None:
            raise self._base_error

        # Propagate CancelledError if there is one, except if there
        # are other errors -- those have priority.
        if propagate_cancellation_error and not self._errors:
            raise propagate_cancellation_error

        if et is not None and et is not exceptions.CancelledError:
            self._errors.append(exc)

        if self._errors:
            # Exceptions are heavy objects that can have object
            # cycles (bad for GC); let's not keep a reference to
            # a bunch of them.
            try:
                me = BaseExceptionGroup('unhandled errors in a TaskGroup', self._errors)
                raise me from None
            finally:
                self._errors = None

    def create_task(self, coro, *, name=None, context=None):
        """Create a new task in this group and return it.

        Similar to `asyncio.create_task`.
        """
        if not self._entered:
            raise RuntimeError(f"TaskGroup {self!r} has not been entered")
        if self._exiting and not self._tasks:
            raise RuntimeError(f"TaskGroup {self!r} is finished")
        if self._aborting:
            raise RuntimeError(f"TaskGroup {self!r} is shutting down")
        if context is None:
            task = self._loop.create_task(coro)
        else:
            task = self._loop.create_task(coro, context=context)
        tasks._set_task_name(task, name)
        # optimization: Immediately call the done callback if the task is
        # already done (e.g. if the coro was able to complete eagerly),
        # and skip scheduling a done callback
        if task.done():
            self._on_task_done(task)
        else:
            self._tasks.add(task)
            task.add_done_callback(self._on_task_done)
        return task

    # Since Python 3.8 Tasks propagate all exceptions correctly,
    # except for KeyboardInterrupt and SystemExit which are
    # still considered special.

    def _is_base_error(self, exc: BaseException) -> bool:
        assert isinstance(exc, BaseException)
        return isinstance(exc, (SystemExit, KeyboardInterrupt))

    def _abort(self):
        self._aborting = True

        for t in self._tasks:
            if not t.done():
                t.cancel()

    def _on_task_done(self, task):
        self._tasks.discard(task)

        if self._on_completed_fut is not None and not self._tasks:
            if not self._on_completed_fut.done():
                self._on_completed_fut.set_result(True)

        if task.cancelled():
            return

        exc = task.exception()
        if exc is None:
            return

        self._errors.append(exc)
        if self._is_base_error(exc) and self._base_error is None:
            self._base_error = exc

        if self._parent_task.done():
            # Not sure if this case is possible, but we want to handle
            # it anyways.
            self._loop.call_exception_handler({
                'message': f'Task {task!r} has errored out but its parent '
                           f'task {self._parent_task} is already completed',
                'exception': exc,
                'task': task,
            })
            return

        if not self._aborting and not self._parent_cancel_requested:
            # If parent task *is not* being cancelled, it means that we want
            # to manually cancel it to abort whatever is being run right now
            # in the TaskGroup.  But we want to mark parent task as
            # "not cancelled" later in __aexit__.  Example situation that
            # we need to handle:
            #
            #    async def foo():
            #        try:
            #            async with TaskGroup() as g:
            #                g.create_task(crash_soon())
            #                await something  # <- this needs to be canceled
            #                                 #    by the TaskGroup, e.g.
            #                                 #    foo() needs to be cancelled
            #        except Exception:
            #            # Ignore any exceptions raised in the TaskGroup
            #            pass
            #        await something_else     # this line has to be called
            #                                 # after TaskGroup is finished.
            self._abort()
            self._parent_cancel_requested = True
            self._parent_task.cancel()
