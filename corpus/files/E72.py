#: E721:3
if type(res) == type(42):
    pass
#: E721:3
if type(res) != type(""):
    pass

import types

if res == types.IntType:
    pass

import types

#: E721:3
if type(res) is not types.ListType:
    pass
#: E721:7 E721:35
assert type(res) == type(False) or type(res) == type(None)
#: E721:7
assert type(res) == type([])
#: E721:7
assert type(res) == type(())
#: E721:7
assert type(res) == type((0,))
#: E721:7
assert type(res) == type((0))
#: E721:7
assert type(res) != type((1,))
#: E721:7
assert type(res) is type((1,))
#: E721:7
assert type(res) is not type((1,))

# Okay
#: E402
import types

if isinstance(res, int):
    pass
if isinstance(res, str):
    pass
if isinstance(res, types.MethodType):
    pass

#: E721:3 E721:25
if type(a) != type(b) or type(a) == type(ccc):
    pass
#: E721
type(a) != type(b)
#: E721
1 != type(b)
#: E721
type(b) != 1
1 != 1

try:
    pass
#: E722
except:
    pass
try:
    pass
except Exception:
    pass
#: E722
except:
    pass
# Okay
fake_code = """"
try:
    do_something()
except:
    pass
"""
try:
    pass
except Exception:
    pass
