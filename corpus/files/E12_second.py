if True:
    result = some_function_that_takes_arguments(
        'a', 'b', 'c',
        'd', 'e', 'f',
        #: E123:0
)
#: E122+1
if some_very_very_very_long_variable_name or var \
or another_very_long_variable_name:
    raise Exception()
#: E122+1
if some_very_very_very_long_variable_name or var[0] \
or another_very_long_variable_name:
    raise Exception()
if True:
    #: E122+1
    if some_very_very_very_long_variable_name or var \
    or another_very_long_variable_name:
        raise Exception()
if True:
    #: E122+1
    if some_very_very_very_long_variable_name or var[0] \
    or another_very_long_variable_name:
        raise Exception()

#: E901+1:8
dictionary = [
    "is": {
        # Might be a E122:4, but is not because the code is invalid Python.
    "nested": yes(),
    },
]
setup('',
      scripts=[''],
      classifiers=[
          #: E121:6
      'Development Status :: 4 - Beta',
          'Environment :: Console',
          'Intended Audience :: Developers',
      ])


#: E123+2:4 E291:15
abc = "E123", (   
    "bad", "hanging", "close"
    )

result = {
    'foo': [
        'bar', {
            'baz': 'frop',
            #: E123
            }
        #: E123
        ]
    #: E123
    }
result = some_function_that_takes_arguments(
    'a', 'b', 'c',
    'd', 'e', 'f',
    #: E123
    )
my_list = [1, 2, 3,
           4, 5, 6,
           #: E124:0
]
my_list = [1, 2, 3,
           4, 5, 6,
           #: E124:19
                   ]
#: E124+2
result = some_function_that_takes_arguments('a', 'b', 'c',
                                            'd', 'e', 'f',
)
fooff(aaaa,
      cca(
          vvv,
          dadd
      ), fff,
      #: E124:0
)
fooff(aaaa,
      ccaaa(
          vvv,
          dadd
      ),
      fff,
      #: E124:0
)
d = dict('foo',
         help="exclude files or directories which match these "
              "comma separated patterns (default: %s)" % DEFAULT_EXCLUDE
         #: E124:14
              )

if line_removed:
    self.event(cr, uid,
               #: E128:8
        name="Removing the option for contract",
               #: E128:8
        description="contract line has been removed",
               #: E124:8
        )

#: E129+1:4
if foo is None and bar is "frop" and \
    blah == 'yeah':
    blah = 'yeahnah'


#: E129+1:4 E129+2:4
def long_function_name(
    var_one, var_two, var_three,
    var_four):
    hello(var_one)


def qualify_by_address(
        #: E129:4 E129+1:4
    self, cr, uid, ids, context=None,
    params_to_check=frozenset(QUALIF_BY_ADDRESS_PARAM)):
    """ This gets called by the web server """


#: E129+1:4 E129+2:4
if (a == 2 or
    b == "abc def ghi"
    "jkl mno"):
    True

my_list = [
    1, 2, 3,
    4, 5, 6,
    #: E123:8
        ]

abris = 3 + \
        4 + \
        5 + 6

fixed = re.sub(r'\t+', ' ', target[c::-1], 1)[::-1] + \
        target[c + 1:]

rv.update(dict.fromkeys((
              'qualif_nr', 'reasonComment_en', 'reasonComment_fr',
              #: E121:12
            'reasonComment_de', 'reasonComment_it'),
                        '?'),
          #: E128:4
    "foo")
#: E126+1:8
eat_a_dict_a_day({
        "foo": "bar",
})
#: E129+1:4
if (
    x == (
            3
            #: E129:4
    ) or
        y == 4):
    pass
#: E129+1:4 E121+2:8 E129+3:4
if (
    x == (
        3
    ) or
        x == (
            # This one has correct indentation.
            3
            #: E129:4
    ) or
        y == 4):
    pass
troublesome_hash = {
    "hash": "value",
    #: E135+1:8
    "long": "the quick brown fox jumps over the lazy dog before doing a "
        "somersault",
}

# Arguments on first line forbidden when not using vertical alignment
#: E128+1:4
foo = long_function_name(var_one, var_two,
    var_three, var_four)

#: E128+1:4
hello('l.%s\t%s\t%s\t%r' %
    (token[2][0], pos, tokenize.tok_name[token[0]], token[1]))


def qualify_by_address(self, cr, uid, ids, context=None,
                       #: E128:8
        params_to_check=frozenset(QUALIF_BY_ADDRESS_PARAM)):
    """ This gets called by the web server """
