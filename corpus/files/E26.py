#: E261:4
pass # an inline comment
#: E261:4
pass# an inline comment

# Okay
pass  # an inline comment
pass   # an inline comment
#: E262:11
x = x + 1  #Increment x
#: E262:11
x = x + 1  #  Increment x
#: E262:11
x = y + 1  #:  Increment x
#: E265
#Block comment
a = 1
#: E265+1
m = 42
#! This is important
mx = 42 - 42

# Comment without anything is not an issue.
#
# However if there are comments at the end without anything it obviously
# doesn't make too much sense.
#: E262:9
foo = 1  #


#: E266+2:4 E266+5:4
def how_it_feel(r):

    ### This is a variable ###
    a = 42

    ### Of course it is unused
    return


#: E266 E266+1
##if DEBUG:
##    logging.error()
#: E266
######################################### 

# Not at the beginning of a file
#: E265
#!/usr/bin/env python

# Okay

pass  # an inline comment
x = x + 1   # Increment x
y = y + 1   #: Increment x

# Block comment
a = 1

# Block comment1

# Block comment2
aaa = 1


# example of docstring (not parsed)
def oof():
    """
    #foo not parsed
    """

    ###########################################################################
    #                               A SEPARATOR                               #
    ###########################################################################

    # ####################################################################### #
    # ########################## another separator ########################## #
    # ####################################################################### #
