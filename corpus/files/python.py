#!/usr/bin/env python3
from typing import ClassVar, List

print(1, 2)


# Annotated function (Issue #29)
def foo(x: int) -> int:
    return x + 1


# Annotated variables #575
CONST: int = 42


class Class:
    cls_var: ClassVar[str]

    def m(self):
        xs: List[int] = []


# True and False are keywords in Python 3 and therefore need a space.
#: E275:13 E275:14
norman = True+False


#: E302+3:0
def a():
    pass

async def b():
    pass


# Okay
async def add(a: int = 0, b: int = 0) -> int:
    return a + b


# Previously E251 four times
#: E221:5
async  def add(a: int = 0, b: int = 0) -> int:
    return a + b


# Previously just E272+1:5 E272+4:5
#: E302+3 E221:5 E221+3:5
async  def x():
    pass

async  def x(y: int = 1):
    pass


#: E704:16
async def f(x): return 2


a[b1, :] == a[b1, ...]


# Annotated Function Definitions
# Okay
def munge(input: AnyStr, sep: AnyStr = None, limit=1000,
          extra: Union[str, dict] = None) -> AnyStr:
    pass


#: E225:24 E225:26
def x(b: tuple = (1, 2))->int:
    return a + b


#: E252:11 E252:12 E231:8
def b(a:int=1):
    pass


if alpha[:-i]:
    *a, b = (1, 2, 3)


# Named only arguments
def foo(*, asdf):
    pass


def foo2(bar, *, asdf=2):
    pass
