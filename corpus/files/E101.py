# Used to be the file for W191

#: E101+1
if False:
	print  # indented with 1 tab

#: E101+1
y = x == 2 \
	or x == 3
#: E101+5
if (
        x == (
            3
        ) or
        y == 4):
	pass
#: E101+3
if x == 2 \
        or y > 1 \
        or x == 3:
	pass
#: E101+3
if x == 2 \
        or y > 1 \
        or x == 3:
	pass

#: E101+1
if (foo == bar and baz == frop):
	pass
#: E101+1
if (foo == bar and baz == frop):
	pass

#: E101+2 E101+3
if start[1] > end_col and not (
        over_indent == 4 and indent_next):
	assert (0, "E121 continuation line over-"
	        "indented for visual indent")


#: E101+3
def long_function_name(
        var_one, var_two, var_three,
        var_four):
	hello(var_one)


#: E101+2
if ((row < 0 or self.moduleCount <= row or
     col < 0 or self.moduleCount <= col)):
	raise Exception("%s,%s - %s" % (row, col, self.moduleCount))
#: E101+1 E101+2 E101+3 E101+4 E101+5 E101+6
if bar:
	assert (
	    start, 'E121 lines starting with a '
	    'closing bracket should be indented '
	    "to match that of the opening "
	    "bracket's line"
	)

# you want vertical alignment, so use a parens
#: E101+3
if ((foo.bar("baz") and
     foo.bar("frop")
     )):
	hello("yes")
#: E101+3
# also ok, but starting to look like LISP
if ((foo.bar("baz") and
     foo.bar("frop"))):
	hello("yes")
#: E101+1
if (a == 2 or b == "abc def ghi" "jkl mno"):
	assert True
#: E101+2
if (a == 2 or b == """abc def ghi
jkl mno"""):
	assert True
#: E101+1 E101+2
if length > options.max_line_length:
	assert options.max_line_length, \
	    "E501 line too long (%d characters)" % length


#: E101+1 E101+2
if os.path.exists(os.path.join(path, PEP8_BIN)):
	cmd = ([os.path.join(path, PEP8_BIN)] +
	       self._pep8_options(targetfile))
# TODO Tabs in docstrings shouldn't be there, use \t.
'''
	multiline string with tab in it'''
# Same here.
'''multiline string
	with tabs
   and spaces
'''
# Okay
'''sometimes, you just need to go nuts in a multiline string
	and allow all sorts of crap
  like mixed tabs and spaces
      
or trailing whitespace  
or long long long long long long long long long long long long long long long long long lines
'''  # noqa
# Okay
'''this one
	will get no warning
even though the noqa comment is not immediately after the string
''' + foo  # noqa

#: E101+2
if foo is None and bar is "frop" and \
        blah == 'yeah':
	blah = 'yeahnah'


#: E101+1 E101+2 E101+3
if True:
	foo(
		1,
		2)


#: E101+1 E101+2 E101+3 E101+4 E101+5
def test_keys(self):
	"""areas.json - All regions are accounted for."""
	expected = set([
		u'Norrbotten',
		u'V\xe4sterbotten',
	])


#: E101+1
x = [
	'abc'
]
