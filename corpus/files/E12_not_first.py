# The issue numbers described in this file are part of the pycodestyle tracker
# and not of parso.
# Originally there were no issues in here, I (dave) added the ones that were
# necessary and IMO useful.
if (
        x == (
            3
        ) or
        y == 4):
    pass

y = x == 2 \
    or x == 3

#: E129+1:4
if x == 2 \
    or y > 1 \
        or x == 3:
    pass

if x == 2 \
        or y > 1 \
        or x == 3:
    pass


if (foo == bar and
        baz == frop):
    pass

#: E129+1:4 E129+2:4 E123+3
if (
    foo == bar and
    baz == frop
):
    pass

if (
        foo == bar and
        baz == frop
        #: E129:4 
    ):
    pass

a = (
)

a = (123,
     )


if start[1] > end_col and not (
        over_indent == 4 and indent_next):
    assert (0, "E121 continuation line over-"
            "indented for visual indent")


abc = "OK", ("visual",
             "indent")

abc = "Okay", ("visual",
               "indent_three"
               )

abc = "a-ok", (
    "there",
    "dude",
)

abc = "hello", (
    "there",
    "dude")

abc = "hello", (

    "there",
    # "john",
    "dude")

abc = "hello", (
    "there", "dude")

abc = "hello", (
    "there", "dude",
)

# Aligned with opening delimiter
foo = long_function_name(var_one, var_two,
                         var_three, var_four)

# Extra indentation is not necessary.
foo = long_function_name(
    var_one, var_two,
    var_three, var_four)


arm = 'AAA'    \
      'BBB'    \
      'CCC'

bbb = 'AAA'    \
      'BBB'    \
      'CCC'

cc = ('AAA'
      'BBB'
      'CCC')

cc = {'text': 'AAA'
              'BBB'
              'CCC'}

cc = dict(text='AAA'
               'BBB')

sat = 'AAA'    \
      'BBB'    \
      'iii'    \
      'CCC'

abricot = (3 +
           4 +
           5 + 6)

#: E122+1:4
abricot = 3 + \
    4 + \
          5 + 6

part = [-1, 2, 3,
        4, 5, 6]

#: E128+1:8
part = [-1, (2, 3,
        4, 5, 6), 7,
        8, 9, 0]

fnct(1, 2, 3,
     4, 5, 6)

fnct(1, 2, 3,
     4, 5, 6,
     7, 8, 9,
     10, 11)


def long_function_name(
        var_one, var_two, var_three,
        var_four):
    hello(var_one)


if ((row < 0 or self.moduleCount <= row or
     col < 0 or self.moduleCount <= col)):
    raise Exception("%s,%s - %s" % (row, col, self.moduleCount))


result = {
    'foo': [
        'bar', {
            'baz': 'frop',
        }
    ]
}


foo = my.func({
    "foo": "bar",
}, "baz")


fooff(aaaa,
      cca(
          vvv,
          dadd
      ), fff,
      ggg)

fooff(aaaa,
      abbb,
      cca(
          vvv,
          aaa,
          dadd),
      "visual indentation is not a multiple of four",)

if bar:
    assert (
        start, 'E121 lines starting with a '
        'closing bracket should be indented '
        "to match that of the opening "
        "bracket's line"
    )

# you want vertical alignment, so use a parens
if ((foo.bar("baz") and
     foo.bar("frop")
     )):
    hello("yes")

# also ok, but starting to look like LISP
if ((foo.bar("baz") and
     foo.bar("frop"))):
    hello("yes")

#: E129+1:4 E127+2:9
if (a == 2 or
    b == "abc def ghi"
         "jkl mno"):
    assert True

#: E129+1:4
if (a == 2 or
    b == """abc def ghi
jkl mno"""):
    assert True

if length > options.max_line_length:
    assert options.max_line_length, \
        "E501 line too long (%d characters)" % length


# blub


asd = 'l.{line}\t{pos}\t{name}\t{text}'.format(
    line=token[2][0],
    pos=pos,
    name=tokenize.tok_name[token[0]],
    text=repr(token[1]),
)

#: E121+1:6 E121+2:6
hello('%-7d %s per second (%d total)' % (
      options.counters[key] / elapsed, key,
      options.counters[key]))


if os.path.exists(os.path.join(path, PEP8_BIN)):
    cmd = ([os.path.join(path, PEP8_BIN)] +
           self._pep8_options(targetfile))


fixed = (re.sub(r'\t+', ' ', target[c::-1], 1)[::-1] +
         target[c + 1:])

fixed = (
    re.sub(r'\t+', ' ', target[c::-1], 1)[::-1] +
    target[c + 1:]
)


if foo is None and bar is "frop" and \
        blah == 'yeah':
    blah = 'yeahnah'


"""This is a multi-line
   docstring."""


if blah:
    # is this actually readable?  :)
    multiline_literal = """
while True:
    if True:
        1
""".lstrip()
    multiline_literal = (
        """
while True:
    if True:
        1
""".lstrip()
    )
    multiline_literal = (
        """
while True:
    if True:
        1
"""
        .lstrip()
    )


if blah:
    multiline_visual = ("""
while True:
    if True:
        1
"""
                        .lstrip())


rv = {'aaa': 42}
rv.update(dict.fromkeys((
              #: E121:4 E121+1:4
    'qualif_nr', 'reasonComment_en', 'reasonComment_fr',
    'reasonComment_de', 'reasonComment_it'), '?'))

rv.update(dict.fromkeys(('qualif_nr', 'reasonComment_en',
                         'reasonComment_fr', 'reasonComment_de',
                         'reasonComment_it'), '?'))

#: E128+1:10
rv.update(dict.fromkeys(('qualif_nr', 'reasonComment_en', 'reasonComment_fr',
          'reasonComment_de', 'reasonComment_it'), '?'))


rv.update(dict.fromkeys(
              ('qualif_nr', 'reasonComment_en', 'reasonComment_fr',
               'reasonComment_de', 'reasonComment_it'), '?'
          ), "foo", context={
              'alpha': 4, 'beta': 53242234, 'gamma': 17,
          })


rv.update(
    dict.fromkeys((
        'qualif_nr', 'reasonComment_en', 'reasonComment_fr',
        'reasonComment_de', 'reasonComment_it'), '?'),
    "foo",
    context={
        'alpha': 4, 'beta': 53242234, 'gamma': 17,
    },
)


event_obj.write(cursor, user_id, {
                    'user': user,
                    'summary': text,
                    'data': data,
                })

event_obj.write(cursor, user_id, {
                    'user': user,
                    'summary': text,
                    'data': {'aaa': 1, 'bbb': 2},
                })

event_obj.write(cursor, user_id, {
                    'user': user,
                    'summary': text,
                    'data': {
                        'aaa': 1,
                        'bbb': 2},
                })

event_obj.write(cursor, user_id, {
                    'user': user,
                    'summary': text,
                    'data': {'timestamp': now, 'content': {
                                 'aaa': 1,
                                 'bbb': 2
                             }},
                })
