"""
Some syntax errors are a bit complicated and need exact checking. Here we
gather some of the potentially dangerous ones.
"""

from __future__ import division

# With a dot it's not a future import anymore.
from .__future__ import absolute_import

'' ''
''r''u''
b'' BR''


for x in [1]:
    break
    continue

try:
    pass
except ZeroDivisionError:
    pass
    #: E722:0
except:
    pass

try:
    pass
    #: E722:0 E901:0
except:
    pass
except ZeroDivisionError:
    pass


r'\n'
r'\x'
b'\n'


a = 3


def x(b=a):
    global a


def x(*args, c=2, d):
    pass


def x(*, c=2, d):
    pass


def x(a, b=1, *args, c=2, d):
    pass


def x(a, b=1, *, c=2, d):
    pass


lambda *args, c=2, d: (c, d)
lambda *, c=2, d: (c, d)
lambda a, b=1, *args, c=2, d: (c, d)
lambda a, b=1, *, c=2, d: (c, d)


*foo, a = (1,)
*foo[0], a = (1,)
*[], a = (1,)


async def foo():
    await bar()
    #: E901
    yield from []
    return
    #: E901
    return ''


# With decorator it's a different statement.
@bla
async def foo():
    await bar()
    #: E901
    yield from []
    return
    #: E901
    return ''


foo: int = 4
(foo): int = 3
((foo)): int = 3
foo.bar: int
foo[3]: int


def glob():
    global x
    y: foo = x


def c():
    a = 3

    def d():
        class X():
            nonlocal a


def x():
    a = 3

    def y():
        nonlocal a


def x():
    def y():
        nonlocal a

    a = 3


def x():
    a = 3

    def y():
        class z():
            nonlocal a


def x(a):
    def y():
        nonlocal a


def x(a, b):
    def y():
        nonlocal b
        nonlocal a


def x(a):
    def y():
        def z():
            nonlocal a


def x():
    def y(a):
        def z():
            nonlocal a


a = *args, *args
error[(*args, *args)] = 3
*args, *args
