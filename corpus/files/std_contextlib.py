"""Utilities for with-statement contexts.  See PEP 343."""
import abc
import os
import sys
import _collections_abc
from collections import deque
from functools import wraps
from types import MethodType, GenericAlias

__all__ = ["asynccontextmanager", "contextmanager", "closing", "nullcontext",
           "AbstractContextManager", "AbstractAsyncContextManager",
           "AsyncExitStack", "ContextDecorator", "ExitStack",
           "redirect_stdout", "redirect_stderr", "suppress", "aclosing",
           "chdir"]


class AbstractContextManager(abc.ABC):

    """An abstract base class for context managers."""

    __class_getitem__ = classmethod(GenericAlias)

    def __enter__(self):
        """Return `self` upon entering the runtime context."""
        return self

    @abc.abstractmethod
    def __exit__(self, exc_type, exc_value, traceback):
        """Raise any exception triggered within the runtime context."""
        return None

    @classmethod
    def __subclasshook__(cls, C):
        if cls is AbstractContextManager:
            return _collections_abc._check_methods(C, "__enter__", "__exit__")
        return NotImplemented


class AbstractAsyncContextManager(abc.ABC):

    """An abstract base class for asynchronous context managers."""

    __class_getitem__ = classmethod(GenericAlias)

    async def __aenter__(self):
        """Return `self` upon entering the runtime context."""
        return self

    @abc.abstractmethod
    async def __aexit__(self, exc_type, exc_value, traceback):
        """Raise any exception triggered within the runtime context."""
        return None

    @classmethod
    def __subclasshook__(cls, C):
        if cls is AbstractAsyncContextManager:
            return _collections_abc._check_methods(C, "__aenter__",
                                                   "__aexit__")
        return NotImplemented


class ContextDecorator(object):
    "A base class or mixin that enables context managers to work as decorators."

    def _recreate_cm(self):
        """Return a recreated instance of self.

        Allows an otherwise one-shot context manager like
        _GeneratorContextManager to support use as
        a decorator via implicit recreation.

        This is a private interface just for _GeneratorContextManager.
        See issue #11647 for details.
        """
        return self

    def __call__(self, func):
        @wraps(func)
        def inner(*args, **kwds):
            with self._recreate_cm():
                return func(*args, **kwds)
        return inner


class AsyncContextDecorator(object):
    "A base class or mixin that enables async context managers to work as decorators."

    def _recreate_cm(self):
        """Return a recreated instance of self.
        """
        return self

    def __call__(self, func):
        @wraps(func)
        async def inner(*args, **kwds):
            async with self._recreate_cm():
                return await func(*args, **kwds)
        return inner


class _GeneratorContextManagerBase:
    """Shared functionality for @contextmanager and @asynccontextmanager."""

    def __init__(self, func, args, kwds):
        self.gen = func(*args, **kwds)
        self.func, self.args, self.kwds = func, args, kwds
        # Issue 19330: ensure context manager instances have good docstrings
        doc = getattr(func, "__doc__", None)
        if doc is None:
            doc = type(self).__doc__
        self.__doc__ = doc
        # Unfortunately, this still doesn't provide good help output when
        # inspecting the created context manager instances, since pydoc
        # currently bypasses the instance docstring and shows the docstring
        # for the class instead.
        # See http://bugs.python.org/issue19404 for more details.

    def _recreate_cm(self):
        # _GCMB instances are one-shot context managers, so the
        # CM must be recreated each time a decorated function is
        # called
        return self.__class__(self.func, self.args, self.kwds)


class _GeneratorContextManager(
    _GeneratorContextManagerBase,
    AbstractContextManager,
    ContextDecorator,
):
    """Helper for @contextmanager decorator."""

    def __enter__(self):
        # do not keep args and kwds alive unnecessarily
        # they are only needed for recreation, which is not possible anymore
        del self.args, self.kwds, self.func
        try:
            return next(self.gen)
        except StopIteration:
            raise RuntimeError("generator didn't yield") from None

    def __exit__(self, typ, value, traceback):
        if typ is None:
            try:
                next(self.gen)
            except StopIteration:
                return False
            else:
                try:
                    raise RuntimeError("generator didn't stop")
                finally:
                    self.gen.close()
        else:
            if value is None:
                # Need to force instantiation so we can reliably
                # tell if we get the same exception back
                value = typ()
            try:
                self.gen.throw(value)
            except StopIteration as exc:
                # Suppress StopIteration *unless* it's the same exception that
                # was passed to throw().  This prevents a StopIteration
                # raised inside the "with" statement from being suppressed.
                return exc is not value
            except RuntimeError as exc:
                # Don't re-raise the passed in exception. (issue27122)
                if exc is value:
                    exc.__traceback__ = traceback
                    return False
                # Avoid suppressing if a StopIteration exception
                # was passed to throw() and later wrapped into a RuntimeError
                # (see PEP 479 for sync generators; async generators also
                # have this behavior). But do this only if the exception wrapped
                # by the RuntimeError is actually Stop(Async)Iteration (see
                # issue29692).
                if (
                    isinstance(value, StopIteration)
                    and exc.__cause__ is value
                ):
                    value.__traceback__ = traceback
                    return False
                raise
            except BaseException as exc:
                # only re-raise if it's *not* the exception that was
                # passed to throw(), because __exit__() must not raise
                # an exception unless __exit__() itself failed.  But throw()
                # has to raise the exception to signal propagation, so this
                # fixes the impedance mismatch between the throw() protocol
                # and the __exit__() protocol.
                if exc is not value:
                    raise
                exc.__traceback__ = traceback
                return False
            try:
                raise RuntimeError("generator didn't stop after throw()")
            finally:
                self.gen.close()

class _AsyncGeneratorContextManager(
    _GeneratorContextManagerBase,
    AbstractAsyncContextManager,
    AsyncContextDecorator,
):
    """Helper for @asynccontextmanager decorator."""

    async def __aenter__(self):
        # do not keep args and kwds alive unnecessarily
        # they are only needed for recreation, which is not possible anymore
        del self.args, self.kwds, self.func
        try:
            return await anext(self.gen)
        except StopAsyncIteration:
            raise RuntimeError("generator didn't yield") from None

    async def __aexit__(self, typ, value, traceback):
        if typ is None:
            try:
                await anext(self.gen)
            except StopAsyncIteration:
                return False
            else:
                try:
                    raise RuntimeError("generator didn't stop")
                finally:
                    await self.gen.aclose()
        else:
            if value is None:
                # Need to force instantiation so we can reliably
                # tell if we get the same exception back
                value = typ()
            try:
                await self.gen.athrow(value)
            except StopAsyncIteration as exc:
                # Suppress StopIteration *unless* it's the same exception that
                # was passed to throw().  This prevents a StopIteration
                # raised inside the "with" statement from being suppressed.
                return exc is not value
            except RuntimeError as exc:
                # Don't re-raise the passed in exception. (issue27122)
                if exc is value:
                    exc.__traceback__ = traceback
                    return False
                # Avoid suppressing if a Stop(Async)Iteration exception
                # was passed to athrow() and later wrapped into a RuntimeError
                # (see PEP 479 for sync generators; async generators also
                # have this behavior). But do this only if the exception wrapped
                # by the RuntimeError is actually Stop(Async)Iteration (see
                # issue29692).
                if (
                    isinstance(value, (StopIteration, StopAsyncIteration))
                    and exc.__cause__ is value
                ):
                    value.__traceback__ = traceback
                    return False
                raise
            except BaseException as exc:
                # only re-raise if it's *not* the exception that was
                # passed to throw(), because __exit__() must not raise
                # an exception unless __exit__() itself failed.  But throw()
                # has to raise the exception to signal propagation, so this
                # fixes the impedance mismatch between the throw() protocol
                # and the __exit__() protocol.
                if exc is not value:
                    raise
                exc.__traceback__ = traceback
                return False
            try:
                raise RuntimeError("generator didn't stop after athrow()")
            finally:
                await self.gen.aclose()


def contextmanager(func):
    """@contextmanager decorator.

    Typical usage:

        @contextmanager
        def some_generator(<arguments>):
            <setup>
            try:
                yield <value>
            finally:
                <cleanup>

    This makes this:

        with some_generator(<arguments>) as <variable>:
            <body>

    equivalent to this:

        <setup>
        try:
            <variable> = <value>
            <body>
        finally:
            <cleanup>
    """
    @wraps(func)
    def helper(*args, **kwds):
        return _GeneratorContextManager(func, args, kwds)
    return helper


def asynccontextmanager(func):
    """@asynccontextmanager decorator.

    Typical usage:

        @asynccontextmanager
        async def some_async_generator(<arguments>):
            <setup>
            try:
                yield <value>
            finally:
                <cleanup>

    This makes this:

        async with some_async_generator(<arguments>) as <variable>:
            <body>

    equivalent to this:

        <setup>
        try:
            <variable> = <value>
            <body>
        finally:
            <cleanup>
    """
    @wraps(func)
    def helper(*args, **kwds):
        return _AsyncGeneratorContextManager(func, args, kwds)
    return helper


class closing(AbstractContextManager):
    """Context to automatically close something at the end of a block.

    Code like this:

        with closing(<module>.open(<arguments>)) as f:
            <block>

    is equivalent to this:

        f = <module>.open(<arguments>)
        try:
            <block>
        finally:
            f.close()

    """
    def __init__(self, thing):
        self.thing = thing
    def __enter__(self):
        return self.thing
    def __exit__(self, *exc_info):
        self.thing.close()


class aclosing(AbstractAsyncContextManager):
    """Async context manager for safely finalizing an asynchronously cleaned-up
    resource such as an async generator, calling its ``aclose()`` method.

    Code like this:

        async with aclosing(<module>.fetch(<arguments>)) as agen:
            <block>

    is equivalent to this:

        agen = <module>.fetch(<arguments>)
        try:
            <block>
        finally:
            await agen.aclose()

    """
    def __init__(self, thing):
        self.thing = thing
    async def __aenter__(self):
        return self.thing
    async def __aexit__(self, *exc_info):
        await self.thing.aclose()


class _RedirectStream(AbstractContextManager):

    _stream = None

    def __init__(self, new_target):
        self._new_target = new_target
        # We use a list of old targets to make this CM re-entrant
        self._old_targets = []

    def __enter__(self):
        self._old_targets.append(getattr(sys, self._stream))
        setattr(sys, self._stream, self._new_target)
        return self._new_target

    def __exit__(self, exctype, excinst, exctb):
        setattr(sys, self._stream, self._old_targets.pop())


class redirect_stdout(_RedirectStream):
    """Context manager for temporarily redirecting stdout to another file.

        # How to send help() to stderr
        with redirect_stdout(sys.stderr):
            help(dir)

        # How to write help() to a file
        with open('help.txt', 'w') as f:
            with redirect_stdout(f):
                help(pow)
    """

    _stream = "stdout"


class redirect_stderr(_RedirectStream):
    """Context manager for temporarily redirecting stderr to another file."""

    _stream = "stderr"


class suppress(AbstractContextManager):
    """Context manager to suppress specified exceptions

    After the exception is suppressed, execution proceeds with the next
    statement following the with statement.

         with suppress(FileNotFoundError):
             os.remove(somefile)
         # Execution still resumes here if the file was already removed
    """

    def __init__(self, *exceptions):
        self._exceptions = exceptions

    def __enter__(self):
        pass

    def __exit__(self, exctype, excinst, exctb):
        # Unlike isinstance and issubclass, CPython exception handling
        # currently only looks at the concrete type hierarchy (ignoring
        # the instance and subclass checking hooks). While Guido considers
        # that a bug rather than a feature, it's a fairly hard one to fix
        # due to various internal implementation details. suppress provides
        # the simpler issubclass based semantics, rather than trying to
        # exactly reproduce the limitations of the CPython interpreter.
        #
        # See http://bugs.python.org/issue12029 for more details
        if exctype is None:
            return
        if issubclass(exctype, self._exceptions):
            return True
        if issubclass(exctype, BaseExceptionGroup):
            match, rest = excinst.split(self._exceptions)
            if rest is None:
                return True
            raise rest
        return False


class _BaseExitStack:
    """A base class for ExitStack and AsyncExitStack."""

    @staticmethod
    def _create_exit_wrapper(cm, cm_exit):
        return MethodType(cm_exit, cm)

    @staticmethod
    def _create_cb_wrapper(callback, /, *args, **kwds):
        def _exit_wrapper(exc_type, exc, tb):
            callback(*args, **kwds)
        return _exit_wrapper

    def __init__(self):
        self._exit_callbacks = deque()

    def pop_all(self):
        """Preserve the context stack by transferring it to a new instance."""
        new_stack = type(self)()
        new_stack._exit_callbacks = self._exit_callbacks
        self._exit_callbacks = deque()
        return new_stack

    def push(self, exit):
        """Registers a callback with the standard __exit__ method signature.

        Can suppress exceptions the same way __exit__ method can.
        Also accepts any object with an __exit__ method (registering a call
        to the method instead of the object itself).
        """
        # We use an unbound method rather than a bound method to follow
        # the standard lookup behaviour for special methods.
        _cb_type = type(exit)

        try:
            exit_method = _cb_type.__exit__
        except AttributeError:
            # Not a context manager, so assume it's a callable.
            self._push_exit_callback(exit)
        else:
            self._push_cm_exit(exit, exit_method)
        return exit  # Allow use as a decorator.

    def enter_context(self, cm):
        """Enters the supplied context manager.

        If successful, also pushes its __exit__ method as a callback and
        returns the result of the __enter__ method.
        """
        # We look up the special methods on the type to match the with
        # statement.
        cls = type(cm)
        try:
            _enter = cls.__enter__
            _exit = cls.__exit__
        except AttributeError:
            raise TypeError(f"'{cls.__module__}.{cls.__qualname__}' object does "
                            f"not support the context manager protocol") from None
        result = _enter(cm)
        self._push_cm_exit(cm, _exit)
        return result

    def callback(self, callback, /, *args, **kwds):
        """Registers an arbitrary callback and arguments.

        Cannot suppress exceptions.
        """
        _exit_wrapper = self._create_cb_wrapper(callback, *args, **kwds)

        # We changed the signature, so using @wraps is not appropriate, but
        # setting __wrapped__ may still help with introspection.
        _exit_wrapper.__wrapped__ = callback
        self._push_exit_callback(_exit_wrapper)
        return callback  # Allow use as a decorator

    def _push_cm_exit(self, cm, cm_exit):
        """Helper to correctly register callbacks to __exit__ methods."""
        _exit_wrapper = self._create_exit_wrapper(cm, cm_exit)
        self._push_exit_callback(_exit_wrapper, True)

    def _push_exit_callback(self, callback, is_sync=True):
        self._exit_callbacks.append((is_sync, callback))


# Inspired by discussions on http://bugs.python.org/issue13585
class ExitStack(_BaseExitStack, AbstractContextManager):
    """Context manager for dynamic management of a stack of exit callbacks.

    For example:
        with ExitStack() as stack:
            files = [stack.enter_context(open(fname)) for fname in filenames]
            # All opened files will automatically be closed at the end of
            # the with statement, even if attempts to open files later
            # in the list raise an exception.
    """

    def __enter__(self):
        return self

    def __exit__(self, *exc_details):
        received_exc = exc_details[0] is not None

        # We manipulate the exception state so it behaves as though
        # we were actually nesting multiple with statements
        frame_exc = sys.exc_info()[1]
        def _fix_exception_context(new_exc, old_exc):
            # Context may not be correct, so find the end of the chain
            while 1:
                exc_context = new_exc.__context__
                if exc_context is None or exc_context is old_exc:
                    # Context is already set correctly (see issue 20317)
                    return
                if exc_context is frame_exc:
                    break
                new_exc = exc_context
            # Change the end of the chain to point to the exception
            # we expect it to reference
            new_exc.__context__ = old_exc

        # Callbacks are invoked in LIFO order to match the behaviour of
        # nested context managers
        suppressed_exc = False
        pending_raise = False
        while self._exit_callbacks:
            is_sync, cb = self._exit_callbacks.pop()
            assert is_sync
            try:
                if cb(*exc_details):
                    suppressed_exc = True
                    pending_raise = False
                    exc_details = (None, None, None)
            except:
                new_exc_details = sys.exc_info()
                # simulate the stack of exceptions by setting the context
                _fix_exception_context(new_exc_details[1], exc_details[1])
                pending_raise = True
                exc_details = new_exc_details
        if pending_raise:
            try:
                # bare "raise exc_details[1]" replaces our carefully
                # set-up context
                fixed_ctx = exc_details[1].__context__
                raise exc_details[1]
            except BaseException:
                exc_details[1].__context__ = fixed_ctx
                raise
        return received_exc and suppressed_exc

    def close(self):
        """Immediately unwind the context stack."""
        self.__exit__(None, None, None)


# Inspired by discussions on https://bugs.python.org/issue29302
class AsyncExitStack(_BaseExitStack, AbstractAsyncContextManager):
    """Async context manager for dynamic management of a stack of exit
    callbacks.

    For example:
        async with AsyncExitStack() as stack:
            connections = [await stack.enter_async_context(get_connection())
                for i in range(5)]
            # All opened connections will automatically be released at the
            # end of the async with statement, even if attempts to open a
            # connection later in the list raise an exception.
    """

    @staticmethod
    def _create_async_exit_wrapper(cm, cm_exit):
        return MethodType(cm_exit, cm)

    @staticmethod
    def _create_async_cb_wrapper(callback, /, *args, **kwds):
        async def _exit_wrapper(exc_type, exc, tb):
            await callback(*args, **kwds)
        return _exit_wrapper

    async def enter_async_context(self, cm):
        """Enters the supplied async context manager.

        If successful, also pushes its __aexit__ method as a callback and
        returns the result of the __aenter__ method.
        """
        cls = type(cm)
        try:
            _enter = cls.__aenter__
            _exit = cls.__aexit__
        except AttributeError:
            raise TypeError(f"'{cls.__module__}.{cls.__qualname__}' object does "
                            f"not support the asynchronous context manager protocol"
                           ) from None
        result = await _enter(cm)
        self._push_async_cm_exit(cm, _exit)
        return result

    def push_async_exit(self, exit):
        """Registers a coroutine function with the standard __aexit__ method
        signature.

        Can suppress exceptions the same way __aexit__ method can.
        Also accepts any object with an __aexit__ method (registering a call
        to the method instead of the object itself).
        """
        _cb_type = type(exit)
        try:
            exit_method = _cb_type.__aexit__
        except AttributeError:
            # Not an async context manager, so assume it's a coroutine function
            self._push_exit_callback(exit, False)
        else:
            self._push_async_cm_exit(exit, exit_method)
        return exit  # Allow use as a decorator

    def push_async_callback(self, callback, /, *args, **kwds):
        """Registers an arbitrary coroutine function and arguments.

        Cannot suppress exceptions.
        """
        _exit_wrapper = self._create_async_cb_wrapper(callback, *args, **kwds)

        # We changed the signature, so using @wraps is not appropriate, but
        # setting __wrapped__ may still help with introspection.
        _exit_wrapper.__wrapped__ = callback
        self._push_exit_callback(_exit_wrapper, False)
        return callback  # Allow use as a decorator

    async def aclose(self):
        """Immediately unwind the context stack."""
        await self.__aexit__(None, None, None)

    def _push_async_cm_exit(self, cm, cm_exit):
        """Helper to correctly register coroutine function to __aexit__
        method."""
        _exit_wrapper = self._create_async_exit_wrapper(cm, cm_exit)
        self._push_exit_callback(_exit_wrapper, False)

    async def __aenter__(self):
        return self

    async def __aexit__(self, *exc_details):
        received_exc = exc_details[0] is not None

        # We manipulate the exception state so it behaves as though
        # we were actually nesting multiple with statements
        frame_exc = sys.exc_info()[1]
        def _fix_exception_context(new_exc, old_exc):
            # Context may not be correct, so find the end of the chain
            while 1:
                exc_context = new_exc.__context__
                if exc_context is None or exc_context is old_exc:
                    # Context is already set correctly (see issue 20317)
                    return
                if exc_context is frame_exc:
                    break
                new_exc = exc_context
            # Change the end of the chain to point to the exception
            # we expect it to reference
            new_exc.__context__ = old_exc

        # Callbacks are invoked in LIFO order to match the behaviour of
        # nested context managers
        suppressed_exc = False
        pending_raise = False
        while self._exit_callbacks:
            is_sync, cb = self._exit_callbacks.pop()
            try:
                if is_sync:
                    cb_suppress = cb(*exc_details)
                else:
                    cb_suppress = await cb(*exc_details)

                if cb_suppress:
                    suppressed_exc = True
                    pending_raise = False
                    exc_details = (None, None, None)
            except:
                new_exc_details = sys.exc_info()
                # simulate the stack of exceptions by setting the context
                _fix_exception_context(new_exc_details[1], exc_details[1])
                pending_raise = True
                exc_details = new_exc_details
        if pending_raise:
            try:
                # bare "raise exc_details[1]" replaces our carefully
                # set-up context
                fixed_ctx = exc_details[1].__context__
                raise exc_details[1]
            except BaseException:
                exc_details[1].__context__ = fixed_ctx
                raise
        return received_exc and suppressed_exc


class nullcontext(AbstractContextManager, AbstractAsyncContextManager):
    """Context manager that does no additional processing.

    Used as a stand-in for a normal context manager, when a particular
    block of code is only sometimes used with a normal context manager:

    cm = optional_cm if condition else nullcontext()
    with cm:
        # Perform operation, using optional_cm if condition is True
    """

    def __init__(self, enter_result=None):
        self.enter_result = enter_result

    def __enter__(self):
        return self.enter_result

    def __exit__(self, *excinfo):
        pass

    async def __aenter__(self):
        return self.enter_result

    async def __aexit__(self, *excinfo):
        pass


class chdir(AbstractContextManager):
    """Non thread-safe context manager to change the current working directory."""

    def __init__(self, path):
        self.path = path
        self._old_cwd = []

    def __enter__(self):
        self._old_cwd.append(os.getcwd())
        os.chdir(self.path)

    def __exit__(self, *excinfo):
        os.chdir(self._old_cwd.pop())
