
def qualify_by_address(
        self, cr, uid, ids, context=None,
        params_to_check=frozenset(QUALIF_BY_ADDRESS_PARAM)):
    """ This gets called by the web server """


def qualify_by_address(self, cr, uid, ids, context=None,
                       params_to_check=frozenset(QUALIF_BY_ADDRESS_PARAM)):
    """ This gets called by the web server """


_ipv4_re = re.compile('^(25[0-5]|2[0-4][0-9]|[01]?[0-9][0-9]?)\.'
                      '(25[0-5]|2[0-4][0-9]|[01]?[0-9][0-9]?)\.'
                      '(25[0-5]|2[0-4][0-9]|[01]?[0-9][0-9]?)\.'
                      '(25[0-5]|2[0-4][0-9]|[01]?[0-9][0-9]?)$')


fct("""
    AAA """ + status_2_string)


if context:
    msg = """\
action: GET-CONFIG
payload:
    ip_address: "%(ip)s"
    username: "%(username)s"
""" % context


if context:
    msg = """\
action: \
GET-CONFIG
""" % context


if context:
    #: E122+2:0
    msg = """\
action: """\
"""GET-CONFIG
""" % context


def unicode2html(s):
    """Convert the characters &<>'" in string s to HTML-safe sequences.
    Convert newline to <br> too."""
    #: E127+1:28
    return unicode((s or '').replace('&', '&amp;')
                            .replace('\n', '<br>\n'))


parser.add_option('--count', action='store_true',
                  help="print total number of errors and warnings "
                       "to standard error and set exit code to 1 if "
                       "total is not null")

parser.add_option('--exclude', metavar='patterns', default=DEFAULT_EXCLUDE,
                  help="exclude files or directories which match these "
                       "comma separated patterns (default: %s)" %
                       DEFAULT_EXCLUDE)

add_option('--count',
           #: E135+1
           help="print total number of errors "
           "to standard error total is not null")

add_option('--count',
           #: E135+2:11
           help="print total number of errors "
                "to standard error "
           "total is not null")


help = ("print total number of errors " +
        "to standard error")

help = "print total number of errors " \
       "to standard error"

help = u"print total number of errors " \
       u"to standard error"

help = b"print total number of errors " \
       b"to standard error"

#: E122+1:5
help = br"print total number of errors " \
     br"to standard error"

d = dict('foo', help="exclude files or directories which match these "
                     #: E135:9
         "comma separated patterns (default: %s)" % DEFAULT_EXCLUDE)

d = dict('foo', help=u"exclude files or directories which match these "
                     u"comma separated patterns (default: %s)"
                     % DEFAULT_EXCLUDE)

#: E135+1:9 E135+2:9
d = dict('foo', help=b"exclude files or directories which match these "
         b"comma separated patterns (default: %s)"
         % DEFAULT_EXCLUDE)

d = dict('foo', help=br"exclude files or directories which match these "
                     br"comma separated patterns (default: %s)" %
                     DEFAULT_EXCLUDE)

d = dict('foo',
         help="exclude files or directories which match these "
              "comma separated patterns (default: %s)" %
              DEFAULT_EXCLUDE)

d = dict('foo',
         help="exclude files or directories which match these "
              "comma separated patterns (default: %s, %s)" %
              (DEFAULT_EXCLUDE, DEFAULT_IGNORE)
         )

d = dict('foo',
         help="exclude files or directories which match these "
              "comma separated patterns (default: %s, %s)" %
              # who knows what might happen here?
              (DEFAULT_EXCLUDE, DEFAULT_IGNORE)
         )

# parens used to allow the indenting.
troublefree_hash = {
    "hash": "value",
    "long": ("the quick brown fox jumps over the lazy dog before doing a "
             "somersault"),
    "long key that tends to happen more when you're indented": (
        "stringwithalongtoken you don't want to break"
    ),
}

# another accepted form
troublefree_hash = {
    "hash": "value",
    "long": "the quick brown fox jumps over the lazy dog before doing "
            "a somersault",
    ("long key that tends to happen more "
     "when you're indented"): "stringwithalongtoken you don't want to break",
}
# confusing but accepted... don't do that
troublesome_hash = {
    "hash": "value",
    "long": "the quick brown fox jumps over the lazy dog before doing a "
            #: E135:4
    "somersault",
    "longer":
        "the quick brown fox jumps over the lazy dog before doing a "
        "somersaulty",
    "long key that tends to happen more "
    "when you're indented": "stringwithalongtoken you don't want to break",
}

d = dict('foo',
         help="exclude files or directories which match these "
              "comma separated patterns (default: %s)" %
              DEFAULT_EXCLUDE
         )
d = dict('foo',
         help="exclude files or directories which match these "
              "comma separated patterns (default: %s)" % DEFAULT_EXCLUDE,
         foobar="this clearly should work, because it is at "
                "the right indent level",
         )

rv.update(dict.fromkeys(
              ('qualif_nr', 'reasonComment_en', 'reasonComment_fr',
               'reasonComment_de', 'reasonComment_it'),
              '?'), "foo",
          context={'alpha': 4, 'beta': 53242234, 'gamma': 17})


def f():
    try:
        if not Debug:
            hello('''
If you would like to see debugging output,
try: %s -d5
''' % sys.argv[0])


# The try statement above was not finished.
#: E901
d = {  # comment
    1: 2
}

# issue 138 (we won't allow this in parso)
#: E126+2:9
[
    12,  # this is a multi-line inline
         # comment
]
# issue 151
#: E122+1:3
if a > b and \
   c > d:
    moo_like_a_cow()

my_list = [
    1, 2, 3,
    4, 5, 6,
]

my_list = [1, 2, 3,
           4, 5, 6,
           ]

result = some_function_that_takes_arguments(
    'a', 'b', 'c',
    'd', 'e', 'f',
)

result = some_function_that_takes_arguments('a', 'b', 'c',
                                            'd', 'e', 'f',
                                            )

# issue 203
dica = {
    ('abc'
     'def'): (
        'abc'),
}

(abcdef[0]
 [1]) = (
    'abc')

('abc'
 'def') == (
    'abc')

# issue 214
bar(
    1).zap(
    2)

bar(
    1).zap(
    2)

if True:

    def example_issue254():
        return [node.copy(
                    (
                        replacement
                        # First, look at all the node's current children.
                        for child in node.children
                        # Replace them.
                        for replacement in replace(child)
                    ),
                    dict(name=token.undefined)
                )]


def valid_example():
    return [node.copy(properties=dict(
                          (key, val if val is not None else token.undefined)
                          for key, val in node.items()
                      ))]


foo([
    'bug'
])

# issue 144, finally!
some_hash = {
    "long key that tends to happen more when you're indented":
        "stringwithalongtoken you don't want to break",
}

{
    1:
        999999 if True
        else 0,
}


abc = dedent(
    '''
        mkdir -p ./{build}/
        mv ./build/ ./{build}/%(revision)s/
    '''.format(
        build='build',
        # more stuff
    )
)
