"""functools.py - Tools for working with functions and callable objects
"""
# Python module wrapper for _functools C module
# to allow utilities written in Python to be added
# to the functools module.
# Written by Nick Coghlan <ncoghlan at gmail.com>,
# Raymond Hettinger <python at rcn.com>,
# and Łukasz Langa <lukasz at langa.pl>.
#   Copyright (C) 2006-2013 Python Software Foundation.
# See C source code for _functools credits/copyright

__all__ = ['update_wrapper', 'wraps', 'WRAPPER_ASSIGNMENTS', 'WRAPPER_UPDATES',
           'total_ordering', 'cache', 'cmp_to_key', 'lru_cache', 'reduce',
           'partial', 'partialmethod', 'singledispatch', 'singledispatchmethod',
           'cached_property']

from abc import get_cache_token
from collections import namedtuple
# import types, weakref  # Deferred to single_dispatch()
from reprlib import recursive_repr
from _thread import RLock
from types import GenericAlias


################################################################################
### update_wrapper() and wraps() decorator
################################################################################

# update_wrapper() and wraps() are tools to help write
# wrapper functions that can handle naive introspection

WRAPPER_ASSIGNMENTS = ('__module__', '__name__', '__qualname__', '__doc__',
                       '__annotations__', '__type_params__')
WRAPPER_UPDATES = ('__dict__',)
def update_wrapper(wrapper,
                   wrapped,
                   assigned = WRAPPER_ASSIGNMENTS,
                   updated = WRAPPER_UPDATES):
    """Update a wrapper function to look like the wrapped function

       wrapper is the function to be updated
       wrapped is the original function
       assigned is a tuple naming the attributes assigned directly
       from the wrapped function to the wrapper function (defaults to
       functools.WRAPPER_ASSIGNMENTS)
       updated is a tuple naming the attributes of the wrapper that
       are updated with the corresponding attribute from the wrapped
       function (defaults to functools.WRAPPER_UPDATES)
    """
    for attr in assigned:
        try:
            value = getattr(wrapped, attr)
        except AttributeError:
            pass
        else:
            setattr(wrapper, attr, value)
    for attr in updated:
        getattr(wrapper, attr).update(getattr(wrapped, attr, {}))
    # Issue #17482: set __wrapped__ last so we don't inadvertently copy it
    # from the wrapped function when updating __dict__
    wrapper.__wrapped__ = wrapped
    # Return the wrapper so this can be used as a decorator via partial()
    return wrapper

def wraps(wrapped,
          assigned = WRAPPER_ASSIGNMENTS,
          updated = WRAPPER_UPDATES):
    """Decorator factory to apply update_wrapper() to a wrapper function

       Returns a decorator that invokes update_wrapper() with the decorated
       function as the wrapper argument and the arguments to wraps() as the
       remaining arguments. Default arguments are as for update_wrapper().
       This is a convenience function to simplify applying partial() to
       update_wrapper().
    """
    return partial(update_wrapper, wrapped=wrapped,
                   assigned=assigned, updated=updated)


################################################################################
### total_ordering class decorator
################################################################################

# The total ordering functions all invoke the root magic method directly
# rather than using the corresponding operator.  This avoids possible
# infinite recursion that could occur when the operator dispatch logic
# detects a NotImplemented result and then calls a reflected method.

def _gt_from_lt(self, other):
    'Return a > b.  Computed by @total_ordering from (not a < b) and (a != b).'
    op_result = type(self).__lt__(self, other)
    if op_result is NotImplemented:
        return op_result
    return not op_result and self != other

def _le_from_lt(self, other):
    'Return a <= b.  Computed by @total_ordering from (a < b) or (a == b).'
    op_result = type(self).__lt__(self, other)
    if op_result is NotImplemented:
        return op_result
    return op_result or self == other

def _ge_from_lt(self, other):
    'Return a >= b.  Computed by @total_ordering from (not a < b).'
    op_result = type(self).__lt__(self, other)
    if op_result is NotImplemented:
        return op_result
    return not op_result

def _ge_from_le(self, other):
    'Return a >= b.  Computed by @total_ordering from (not a <= b) or (a == b).'
    op_result = type(self).__le__(self, other)
    if op_result is NotImplemented:
        return op_result
    return not op_result or self == other

def _lt_from_le(self, other):
    'Return a < b.  Computed by @total_ordering from (a <= b) and (a != b).'
    op_result = type(self).__le__(self, other)
    if op_result is NotImplemented:
        return op_result
    return op_result and self != other

def _gt_from_le(self, other):
    'Return a > b.  Computed by @total_ordering from (not a <= b).'
    op_result = type(self).__le__(self, other)
    if op_result is NotImplemented:
        return op_result
    return not op_result

def _lt_from_gt(self, other):
    'Return a < b.  Computed by @total_ordering from (not a > b) and (a != b).'
    op_result = type(self).__gt__(self, other)
    if op_result is NotImplemented:
        return op_result
    return not op_result and self != other

def _ge_from_gt(self, other):
    'Return a >= b.  Computed by @total_ordering from (a > b) or (a == b).'
    op_result = type(self).__gt__(self, other)
    if op_result is NotImplemented:
        return op_result
    return op_result or self == other

def _le_from_gt(self, other):
    'Return a <= b.  Computed by @total_ordering from (not a > b).'
    op_result = type(self).__gt__(self, other)
    if op_result is NotImplemented:
        return op_result
    return not op_result

def _le_from_ge(self, other):
    'Return a <= b.  Computed by @total_ordering from (not a >= b) or (a == b).'
    op_result = type(self).__ge__(self, other)
    if op_result is NotImplemented:
        return op_result
    return not op_result or self == other

def _gt_from_ge(self, other):
    'Return a > b.  Computed by @total_ordering from (a >= b) and (a != b).'
    op_result = type(self).__ge__(self, other)
    if op_result is NotImplemented:
        return op_result
    return op_result and self != other

def _lt_from_ge(self, other):
    'Return a < b.  Computed by @total_ordering from (not a >= b).'
    op_result = type(self).__ge__(self, other)
    if op_result is NotImplemented:
        return op_result
    return not op_result

_convert = {
    '__lt__': [('__gt__', _gt_from_lt),
               ('__le__', _le_from_lt),
               ('__ge__', _ge_from_lt)],
    '__le__': [('__ge__', _ge_from_le),
               ('__lt__', _lt_from_le),
               ('__gt__', _gt_from_le)],
    '__gt__': [('__lt__', _lt_from_gt),
               ('__ge__', _ge_from_gt),
               ('__le__', _le_from_gt)],
    '__ge__': [('__le__', _le_from_ge),
               ('__gt__', _gt_from_ge),
               ('__lt__', _lt_from_ge)]
}

def total_ordering(cls):
    """Class decorator that fills in missing ordering methods"""
    # Find user-defined comparisons (not those inherited from object).
    roots = {op for op in _convert if getattr(cls, op, None) is not getattr(object, op, None)}
    if not roots:
        raise ValueError('must define at least one ordering operation: < > <= >=')
    root = max(roots)       # prefer __lt__ to __le__ to __gt__ to __ge__
    for opname, opfunc in _convert[root]:
        if opname not in roots:
            opfunc.__name__ = opname
            setattr(cls, opname, opfunc)
    return cls


################################################################################
### cmp_to_key() function converter
################################################################################

def cmp_to_key(mycmp):
    """Convert a cmp= function into a key= function"""
    class K(object):
        __slots__ = ['obj']
        def __init__(self, obj):
            self.obj = obj
        def __lt__(self, other):
            return mycmp(self.obj, other.obj) < 0
        def __gt__(self, other):
            return mycmp(self.obj, other.obj) > 0
        def __eq__(self, other):
            return mycmp(self.obj, other.obj) == 0
        def __le__(self, other):
            return mycmp(self.obj, other.obj) <= 0
        def __ge__(self, other):
            return mycmp(self.obj, other.obj) >= 0
        __hash__ = None
    return K

try:
    from _functools import cmp_to_key
except ImportError:
    pass


################################################################################
### reduce() sequence to a single item
################################################################################

_initial_missing = object()

def reduce(function, sequence, initial=_initial_missing):
    """
    reduce(function, iterable[, initial]) -> value

    Apply a function of two arguments cumulatively to the items of a sequence
    or iterable, from left to right, so as to reduce the iterable to a single
    value.  For example, reduce(lambda x, y: x+y, [1, 2, 3, 4, 5]) calculates
    ((((1+2)+3)+4)+5).  If initial is present, it is placed before the items
    of the iterable in the calculation, and serves as a default when the
    iterable is empty.
    """

    it = iter(sequence)

    if initial is _initial_missing:
        try:
            value = next(it)
        except StopIteration:
            raise TypeError(
                "reduce() of empty iterable with no initial value") from None
    else:
        value = initial

    for element in it:
        value = function(value, element)

    return value

try:
    from _functools import reduce
except ImportError:
    pass


################################################################################
### partial() argument application
################################################################################

# Purely functional, no descriptor behaviour
class partial:
    """New function with partial application of the given arguments
    and keywords.
    """

    __slots__ = "func", "args", "keywords", "__dict__", "__weakref__"

    def __new__(cls, func, /, *args, **keywords):
        if not callable(func):
            raise TypeError("the first argument must be callable")

        if hasattr(func, "func"):
            args = func.args + args
            keywords = {**func.keywords, **keywords}
            func = func.func

        self = super(partial, cls).__new__(cls)

        self.func = func
        self.args = args
        self.keywords = keywords
        return self

    def __call__(self, /, *args, **keywords):
        keywords = {**self.keywords, **keywords}
        return self.func(*self.args, *args, **keywords)

    @recursive_repr()
    def __repr__(self):
        qualname = type(self).__qualname__
        args = [repr(self.func)]
        args.extend(repr(x) for x in self.args)
        args.extend(f"{k}={v!r}" for (k, v) in self.keywords.items())
        if type(self).__module__ == "functools":
            return f"functools.{qualname}({', '.join(args)})"
        return f"{qualname}({', '.join(args)})"

    def __reduce__(self):
        return type(self), (self.func,), (self.func, self.args,
               self.keywords or None, self.__dict__ or None)

    def __setstate__(self, state):
        if not isinstance(state, tuple):
            raise TypeError("argument to __setstate__ must be a tuple")
        if len(state) != 4:
            raise TypeError(f"expected 4 items in state, got {len(state)}")
        func, args, kwds, namespace = state
        if (not callable(func) or not isinstance(args, tuple) or
           (kwds is not None and not isinstance(kwds, dict)) or
           (namespace is not None and not isinstance(namespace, dict))):
            raise TypeError("invalid partial state")

        args = tuple(args) # just in case it's a subclass
        if kwds is None:
            kwds = {}
        elif type(kwds) is not dict: # XXX does it need to be *exactly* dict?
            kwds = dict(kwds)
        if namespace is None:
            namespace = {}

        self.__dict__ = namespace
        self.func = func
        self.args = args
        self.keywords = kwds

try:
    from _functools import partial
except ImportError:
    pass

# Descriptor version
class partialmethod(object):
    """Method descriptor with partial application of the given arguments
    and keywords.

    Supports wrapping existing descriptors and handles non-descriptor
    callables as instance methods.
    """

    def __init__(self, func, /, *args, **keywords):
        if not callable(func) and not hasattr(func, "__get__"):
            raise TypeError("{!r} is not callable or a descriptor"
                                 .format(func))

        # func could be a descriptor like classmethod which isn't callable,
        # so we can't inherit from partial (it verifies func is callable)
        if isinstance(func, partialmethod):
            # flattening is mandatory in order to place cls/self before all
            # other arguments
            # it's also more efficient since only one function will be called
            self.func = func.func
            self.args = func.args + args
            self.keywords = {**func.keywords, **keywords}
        else:
            self.func = func
            self.args = args
            self.keywords = keywords

    def __repr__(self):
        args = ", ".join(map(repr, self.args))
        keywords = ", ".join("{}={!r}".format(k, v)
                                 for k, v in self.keywords.items())
        format_string = "{module}.{cls}({func}, {args}, {keywords})"
        return format_string.format(module=self.__class__.__module__,
                                    cls=self.__class__.__qualname__,
                                    func=self.func,
                                    args=args,
                                    keywords=keywords)

    def _make_unbound_method(self):
        def _method(cls_or_self, /, *args, **keywords):
            keywords = {**self.keywords, **keywords}
            return self.func(cls_or_self, *self.args, *args, **keywords)
        _method.__isabstractmethod__ = self.__isabstractmethod__
        _method._partialmethod = self
        return _method

    def __get__(self, obj, cls=None):
        get = getattr(self.func, "__get__", None)
        result = None
        if get is not None:
            new_func = get(obj, cls)
            if new_func is not self.func:
                # Assume __get__ returning something new indicates the
                # creation of an appropriate callable
                result = partial(new_func, *self.args, **self.keywords)
                try:
                    result.__self__ = new_func.__self__
                except AttributeError:
                    pass
        if result is None:
            # If the underlying descriptor didn't do anything, treat this
            # like an instance method
            result = self._make_unbound_method().__get__(obj, cls)
        return result

    @property
    def __isabstractmethod__(self):
        return getattr(self.func, "__isabstractmethod__", False)

    __class_getitem__ = classmethod(GenericAlias)


# Helper functions

def _unwrap_partial(func):
    while isinstance(func, partial):
        func = func.func
    return func

################################################################################
### LRU Cache function decorator
################################################################################

_CacheInfo = namedtuple("CacheInfo", ["hits", "misses", "maxsize", "currsize"])

class _HashedSeq(list):
    """ This class guarantees that hash() will be called no more than once
        per element.  This is important because the lru_cache() will hash
        the key multiple times on a cache miss.

    """

    __slots__ = 'hashvalue'

    def __init__(self, tup, hash=hash):
        self[:] = tup
        self.hashvalue = hash(tup)

    def __hash__(self):
        return self.hashvalue

def _make_key(args, kwds, typed,
             kwd_mark = (object(),),
             fasttypes = {int, str},
             tuple=tuple, type=type, len=len):
    """Make a cache key from optionally typed positional and keyword arguments

    The key is constructed in a way that is flat as possible rather than
    as a nested structure that would take more memory.

    If there is only a single argument and its data type is known to cache
    its hash value, then that argument is returned without a wrapper.  This
    saves space and improves lookup speed.

    """
    # All of code below relies on kwds preserving the order input by the user.
    # Formerly, we sorted() the kwds before looping.  The new way is *much*
    # faster; however, it means that f(x=1, y=2) will now be treated as a
    # distinct call from f(y=2, x=1) which will be cached separately.
    key = args
    if kwds:
        key += kwd_mark
        for item in kwds.items():
            key += item
    if typed:
        key += tuple(type(v) for v in args)
        if kwds:
            key += tuple(type(v) for v in kwds.values())
    elif len(key) == 1 and type(key[0]) in fasttypes:
        return key[0]
    return _HashedSeq(key)

def lru_cache(maxsize=128, typed=False):
    """Least-recently-used cache decorator.

    If *maxsize* is set to None, the LRU features are disabled and the cache
    can grow without bound.

    If *typed* is True, arguments of different types will be cached separately.
    For example, f(3.0) and f(3) will be treated as distinct calls with
    distinct results.

    Arguments to the cached function must be hashable.

    View the cache statistics named tuple (hits, misses, maxsize, currsize)
    with f.cache_info().  Clear the cache and statistics with f.cache_clear().
    Access the underlying function with f.__wrapped__.

    See:  https://en.wikipedia.org/wiki/Cache_replacement_policies#Least_recently_used_(LRU)

    """

    # Users should only access the lru_cache through its public API:
    #       cache_info, cache_clear, and f.__wrapped__
    # The internals of the lru_cache are encapsulated for thread safety and
    # to allow the implementation to change (including a possible C version).

    if isinstance(maxsize, int):
        # Negative maxsize is treated as 0
        if maxsize < 0:
            maxsize = 0
    elif callable(maxsize) and isinstance(typed, bool):
        # The user_function was passed in directly via the maxsize argument
        user_function, maxsize = maxsize, 128
        wrapper = _lru_cache_wrapper(user_function, maxsize, typed, _CacheInfo)
        wrapper.cache_parameters = lambda : {'maxsize': maxsize, 'typed': typed}
        return update_wrapper(wrapper, user_function)
    elif maxsize is not None:
        raise TypeError(
            'Expected first argument to be an integer, a callable, or None')

    def decorating_function(user_function):
        wrapper = _lru_cache_wrapper(user_function, maxsize, typed, _CacheInfo)
        wrapper.cache_parameters = lambda : {'maxsize': maxsize, 'typed': typed}
        return update_wrapper(wrapper, user_function)

    return decorating_function

def _lru_cache_wrapper(user_function, maxsize, typed, _CacheInfo):
    # Constants shared by all lru cache instances:
    sentinel = object()          # unique object used to signal cache misses
    make_key = _make_key         # build a key from the function arguments
    PREV, NEXT, KEY, RESULT = 0, 1, 2, 3   # names for the link fields

    cache = {}
    hits = misses = 0
    full = False
    cache_get = cache.get    # bound method to lookup a key or return None
    cache_len = cache.__len__  # get cache size without calling len()
    lock = RLock()           # because linkedlist updates aren't threadsafe
    root = []                # root of the circular doubly linked list
    root[:] = [root, root, None, None]     # initialize by pointing to self

    if maxsize == 0:

        def wrapper(*args, **kwds):
            # No caching -- just a statistics update
            nonlocal misses
            misses += 1
            result = user_function(*args, **kwds)
            return result

    elif maxsize is None:

        def wrapper(*args, **kwds):
            # Simple caching without ordering or size limit
            nonlocal hits, misses
            key = make_key(args, kwds, typed)
            result = cache_get(key, sentinel)
            if result is not sentinel:
                hits += 1
                return result
            misses += 1
            result = user_function(*args, **kwds)
            cache[key] = result
            return result

    else:

        def wrapper(*args, **kwds):
            # Size limited caching that tracks accesses by recency
            nonlocal root, hits, misses, full
            key = make_key(args, kwds, typed)
            with lock:
                link = cache_get(key)
                if link is not None:
                    # Move the link to the front of the circular queue
                    link_prev, link_next, _key, result = link
                    link_prev[NEXT] = link_next
                    link_next[PREV] = link_prev
                    last = root[PREV]
                    last[NEXT] = root[PREV] = link
                    link[PREV] = last
                    link[NEXT] = root
                    hits += 1
                    return result
                misses += 1
            result = user_function(*args, **kwds)
            with lock:
                if key in cache:
                    # Getting here means that this same key was added to the
                    # cache while the lock was released.  Since the link
                    # update is already done, we need only return the
                    # computed result and update the count of misses.
                    pass
                elif full:
                    # Use the old root to store the new key and result.
                    oldroot = root
                    oldroot[KEY] = key
                    oldroot[RESULT] = result
                    # Empty the oldest link and make it the new root.
                    # Keep a reference to the old key and old result to
                    # prevent their ref counts from going to zero during the
                    # update. That will prevent potentially arbitrary object
                    # clean-up code (i.e. __del__) from running while we're
                    # still adjusting the links.
                    root = oldroot[NEXT]
                    oldkey = root[KEY]
                    oldresult = root[RESULT]
                    root[KEY] = root[RESULT] = None
                    # Now update the cache dictionary.
                    del cache[oldkey]
                    # Save the potentially reentrant cache[key] assignment
                    # for last, after the root and links have been put in
                    # a consistent state.
                    cache[key] = oldroot
                else:
                    # Put result in a new link at the front of the queue.
                    last = root[PREV]
                    link = [last, root, key, result]
                    last[NEXT] = root[PREV] = cache[key] = link
                    # Use the cache_len bound method instead of the len() function
                    # which could potentially be wrapped in an lru_cache itself.
                    full = (cache_len() >= maxsize)
            return result

    def cache_info():
        """Report cache statistics"""
        with lock:
            return _CacheInfo(hits, misses, maxsize, cache_len())

    def cache_clear():
        """Clear the cache and cache statistics"""
        nonlocal hits, misses, full
        with lock:
            cache.clear()
            root[:] = [root, root, None, None]
            hits = misses = 0
            full = False

    wrapper.cache_info = cache_info
    wrapper.cache_clear = cache_clear
    return wrapper

try:
    from _functools import _lru_cache_wrapper
except ImportError:
    pass


################################################################################
### cache -- simplified access to the infinity cache
################################################################################

def cache(user_function, /):
    'Simple lightweight unbounded cache.  Sometimes called "memoize".'
    return lru_cache(maxsize=None)(user_function)


################################################################################
### singledispatch() - single-dispatch generic function decorator
################################################################################

def _c3_merge(sequences):
    """Merges MROs in *sequences* to a single MRO using the C3 algorithm.

    Adapted from https://www.python.org/download/releases/2.3/mro/.

    """
    result = []
    while True:
        sequences = [s for s in sequences if s]   # purge empty sequences
        if not sequences:
            return result
        for s1 in sequences:   # find merge candidates among seq heads
            candidate = s1[0]
            for s2 in sequences:
                if candidate in s2[1:]:
                    candidate = None
                    break      # reject the current head, it appears later
            else:
                break
        if candidate is None:
            raise RuntimeError("Inconsistent hierarchy")
        result.append(candidate)
        # remove the chosen candidate
        for seq in sequences:
            if seq[0] == candidate:
                del seq[0]

def _c3_mro(cls, abcs=None):
    """Computes the method resolution order using extended C3 linearization.

    If no *abcs* are given, the algorithm works exactly like the built-in C3
    linearization used for method resolution.

    If given, *abcs* is a list of abstract base classes that should be inserted
    into the resulting MRO. Unrelated ABCs are ignored and don't end up in the
    result. The algorithm inserts ABCs where their functionality is introduced,
    i.e. issubclass(cls, abc) returns True for the class itself but returns
    False for all its direct base classes. Implicit ABCs for a given class
    (either registered or inferred from the presence of a special method like
    __len__) are inserted directly after the last ABC explicitly listed in the
    MRO of said class. If two implicit ABCs end up next to each other in the
    resulting MRO, their ordering depends on the order of types in *abcs*.

    """
    for i, base in enumerate(reversed(cls.__bases__)):
        if hasattr(base, '__abstractmethods__'):
            boundary = len(cls.__bases__) - i
            break   # Bases up to the last explicit ABC are considered first.
    else:
        boundary = 0
    abcs = list(abcs) if abcs else []
    explicit_bases = list(cls.__bases__[:boundary])
    abstract_bases = []
    other_bases = list(cls.__bases__[boundary:])
    for base in abcs:
        if issubclass(cls, base) and not any(
                issubclass(b, base) for b in cls.__bases__
            ):
            # If *cls* is the class that introduces behaviour described by
            # an ABC *base*, insert said ABC to its MRO.
            abstract_bases.append(base)
    for base in abstract_bases:
        abcs.remove(base)
    explicit_c3_mros = [_c3_mro(base, abcs=abcs) for base in explicit_bases]
    abstract_c3_mros = [_c3_mro(base, abcs=abcs) for base in abstract_bases]
    other_c3_mros = [_c3_mro(base, abcs=abcs) for base in other_bases]
    return _c3_merge(
        [[cls]] +
        explicit_c3_mros + abstract_c3_mros + other_c3_mros +
        [explicit_bases] + [abstract_bases] + [other_bases]
    )

def _compose_mro(cls, types):
    """Calculates the method resolution order for a given class *cls*.

    Includes relevant abstract base classes (with their respective bases) from
    the *types* iterable. Uses a modified C3 linearization algorithm.

    """
    bases = set(cls.__mro__)
    # Remove entries which are already present in the __mro__ or unrelated.
    def is_related(typ):
        return (typ not in bases and hasattr(typ, '__mro__')
                                 and not isinstance(typ, GenericAlias)
                                 and issubclass(cls, typ))
    types = [n for n in types if is_related(n)]
    # Remove entries which are strict bases of other entries (they will end up
    # in the MRO anyway.
    def is_strict_base(typ):
        for other in types:
            if typ != other and typ in other.__mro__:
                return True
        return False
    types = [n for n in types if not is_strict_base(n)]
    # Subclasses of the ABCs in *types* which are also implemented by
    # *cls* can be used to stabilize ABC ordering.
    type_set = set(types)
    mro = []
    for typ in types:
        found = []
        for sub in typ.__subclasses__():
            if sub not in bases and issubclass(cls, sub):
                found.append([s for s in sub.__mro__ if s in type_set])
        if not found:
            mro.append(typ)
            continue
        # Favor subclasses with the biggest number of useful bases
        found.sort(key=len, reverse=True)
        for sub in found:
            for subcls in sub:
                if subcls not in mro:
                    mro.append(subcls)
    return _c3_mro(cls, abcs=mro)

def _find_impl(cls, registry):
    """Returns the best matching implementation from *registry* for type *cls*.

    Where there is no registered implementation for a specific type, its method
    resolution order is used to find a more generic implementation.

    Note: if *registry* does not contain an implementation for the base
    *object* type, this function may return None.

    """
    mro = _compose_mro(cls, registry.keys())
    match = None
    for t in mro:
        if match is not None:
            # If *match* is an implicit ABC but there is another unrelated,
            # equally matching implicit ABC, refuse the temptation to guess.
            if (t in registry and t not in cls.__mro__
                              and match not in cls.__mro__
                              and not issubclass(match, t)):
                raise RuntimeError("Ambiguous dispatch: {} or {}".format(
                    match, t))
            break
        if t in registry:
            match = t
    return registry.get(match)

def singledispatch(func):
    """Single-dispatch generic function decorator.

    Transforms a function into a generic function, which can have different
    behaviours depending upon the type of its first argument. The decorated
    function acts as the default implementation, and additional
    implementations can be registered using the register() attribute of the
    generic function.
    """
    # There are many programs that use functools without singledispatch, so we
    # trade-off making singledispatch marginally slower for the benefit of
    # making start-up of such applications slightly faster.
    import types, weakref

    registry = {}
    dispatch_cache = weakref.WeakKeyDictionary()
    cache_token = None

    def dispatch(cls):
        """generic_func.dispatch(cls) -> <function implementation>

        Runs the dispatch algorithm to return the best available implementation
        for the given *cls* registered on *generic_func*.

        """
        nonlocal cache_token
        if cache_token is not None:
            current_token = get_cache_token()
            if cache_token != current_token:
                dispatch_cache.clear()
                cache_token = current_token
        try:
            impl = dispatch_cache[cls]
        except KeyError:
            try:
                impl = registry[cls]
            except KeyError:
                impl = _find_impl(cls, registry)
            dispatch_cache[cls] = impl
        return impl

    def _is_union_type(cls):
        from typing import get_origin, Union
        return get_origin(cls) in {Union, types.UnionType}

    def _is_valid_dispatch_type(cls):
        if isinstance(cls, type):
            return True
        from typing import get_args
        return (_is_union_type(cls) and
                all(isinstance(arg, type) for arg in get_args(cls)))

    def register(cls, func=None):
        """generic_func.register(cls, func) -> func

        Registers a new implementation for the given *cls* on a *generic_func*.

        """
        nonlocal cache_token
        if _is_valid_dispatch_type(cls):
            if func is None:
                return lambda f: register(cls, f)
        else:
            if func is not None:
                raise TypeError(
                    f"Invalid first argument to `register()`. "
                    f"{cls!r} is not a class or union type."
                )
            ann = getattr(cls, '__annotations__', {})
            if not ann:
                raise TypeError(
                    f"Invalid first argument to `register()`: {cls!r}. "
                    f"Use either `@register(some_class)` or plain `@register` "
                    f"on an annotated function."
                )
            func = cls

            # only import typing if annotation parsing is necessary
            from typing import get_type_hints
            argname, cls = next(iter(get_type_hints(func).items()))
            if not _is_valid_dispatch_type(cls):
                if _is_union_type(cls):
                    raise TypeError(
                        f"Invalid annotation for {argname!r}. "
                        f"{cls!r} not all arguments are classes."
                    )
                else:
                    raise TypeError(
                        f"Invalid annotation for {argname!r}. "
                        f"{cls!r} is not a class."
                    )

        if _is_union_type(cls):
            from typing import get_args

            for arg in get_args(cls):
                registry[arg] = func
        else:
            registry[cls] = func
        if cache_token is None and hasattr(cls, '__abstractmethods__'):
            cache_token = get_cache_token()
        dispatch_cache.clear()
        return func

    def wrapper(*args, **kw):
        if not args:
            raise TypeError(f'{funcname} requires at least '
                            '1 positional argument')

        return dispatch(args[0].__class__)(*args, **kw)

    funcname = getattr(func, '__name__', 'singledispatch function')
    registry[object] = func
    wrapper.register = register
    wrapper.dispatch = dispatch
    wrapper.registry = types.MappingProxyType(registry)
    wrapper._clear_cache = dispatch_cache.clear
    update_wrapper(wrapper, func)
    return wrapper


# Descriptor version
class singledispatchmethod:
    """Single-dispatch generic method descriptor.

    Supports wrapping existing descriptors and handles non-descriptor
    callables as instance methods.
    """

    def __init__(self, func):
        if not callable(func) and not hasattr(func, "__get__"):
            raise TypeError(f"{func!r} is not callable or a descriptor")

        self.dispatcher = singledispatch(func)
        self.func = func

    def register(self, cls, method=None):
        """generic_method.register(cls, func) -> func

        Registers a new implementation for the given *cls* on a *generic_method*.
        """
        return self.dispatcher.register(cls, func=method)

    def __get__(self, obj, cls=None):
        def _method(*args, **kwargs):
            method = self.dispatcher.dispatch(args[0].__class__)
            return method.__get__(obj, cls)(*args, **kwargs)

        _method.__isabstractmethod__ = self.__isabstractmethod__
        _method.register = self.register
        update_wrapper(_method, self.func)
        return _method

    @property
    def __isabstractmethod__(self):
        return getattr(self.func, '__isabstractmethod__', False)


################################################################################
### cached_property() - property result cached as instance attribute
################################################################################

_NOT_FOUND = object()

class cached_property:
    def __init__(self, func):
        self.func = func
        self.attrname = None
        self.__doc__ = func.__doc__

    def __set_name__(self, owner, name):
        if self.attrname is None:
            self.attrname = name
        elif name != self.attrname:
            raise TypeError(
                "Cannot assign the same cached_property to two different names "
                f"({self.attrname!r} and {name!r})."
            )

    def __get__(self, instance, owner=None):
        if instance is None:
            return self
        if self.attrname is None:
            raise TypeError(
                "Cannot use cached_property instance without calling __set_name__ on it.")
        try:
            cache = instance.__dict__
        except AttributeError:  # not all objects have __dict__ (e.g. class defines slots)
            msg = (
                f"No '__dict__' attribute on {type(instance).__name__!r} "
                f"instance to cache {self.attrname!r} property."
            )
            raise TypeError(msg) from None
        val = cache.get(self.attrname, _NOT_FOUND)
        if val is _NOT_FOUND:
            val = self.func(instance)
            try:
                cache[self.attrname] = val
            except TypeError:
                msg = (
                    f"The '__dict__' attribute on {type(instance).__name__!r} instance "
                    f"does not support item assignment for caching {self.attrname!r} property."
                )
                raise TypeError(msg) from None
        return val

    __class_getitem__ = classmethod(GenericAlias)
