﻿#!/usr/bin/env python
# -*- coding: utf-8 -*-

hello = 'こんにちわ'

# EOF
