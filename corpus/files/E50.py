#: E501:4
a = '12345678901234567890123456789012345678901234567890123456789012345678901234567890'
#: E501:80
a = '1234567890123456789012345678901234567890123456789012345678901234567890' or \
    6
#: E501+1:80
a = 7 or \
    '1234567890123456789012345678901234567890123456789012345678901234567890' or \
    6
#: E501+1:80 E501+2:80
a = 7 or \
    '1234567890123456789012345678901234567890123456789012345678901234567890' or \
    '1234567890123456789012345678901234567890123456789012345678901234567890' or \
    6
#: E501:78
a = '1234567890123456789012345678901234567890123456789012345678901234567890'  # \
#: E502:78
a = ('123456789012345678901234567890123456789012345678901234567890123456789'  \
     '01234567890')
#: E502+1:11
a = ('AAA  \
      BBB' \
     'CCC')
#: E502:38
if (foo is None and bar is "e000" and \
        blah == 'yeah'):
    blah = 'yeahnah'
#
# Okay
a = ('AAA'
     'BBB')

a = ('AAA  \
      BBB'
     'CCC')

a = 'AAA'    \
    'BBB'    \
    'CCC'

a = ('AAA\
BBBBBBBBB\
CCCCCCCCC\
DDDDDDDDD')
#
# Okay
if aaa:
    pass
elif bbb or \
        ccc:
    pass

ddd = \
    ccc

('\
    ' + ' \
')
('''
    ''' + ' \
')
#: E501:67 E225:21 E225:22
very_long_identifiers=and_terrible_whitespace_habits(are_no_excuse+for_long_lines)
#
# TODO Long multiline strings are not handled. E501?
'''multiline string
with a long long long long long long long long long long long long long long long long line
'''
#: E501
'''same thing, but this time without a terminal newline in the string
long long long long long long long long long long long long long long long long line'''
#
# issue 224 (unavoidable long lines in docstrings)
# Okay
"""
I'm some great documentation.  Because I'm some great documentation, I'm
going to give you a reference to some valuable information about some API
that I'm calling:

    http://msdn.microsoft.com/en-us/library/windows/desktop/aa363858(v=vs.85).aspx
"""
#: E501
"""
longnospaceslongnospaceslongnospaceslongnospaceslongnospaceslongnospaceslongnospaceslongnospaces"""


# Regression test for #622
def foo():
    """Lorem ipsum dolor sit amet, consectetur adipiscing elit. Duis pulvinar vitae
    """


# Okay
"""
This
                                                                       almost_empty_line
"""

"""
This
                                                                        almost_empty_line
"""
# A basic comment
#: E501
# with a long long long long long long long long long long long long long long long long line

#
# Okay
# I'm some great comment.  Because I'm so great, I'm going to give you a
# reference to some valuable information about some API that I'm calling:
#
#     http://msdn.microsoft.com/en-us/library/windows/desktop/aa363858(v=vs.85).aspx

x = 3

# longnospaceslongnospaceslongnospaceslongnospaceslongnospaceslongnospaceslongnospaceslongnospaces

#
# Okay
# This
#                                                                      almost_empty_line

#
#: E501+1
# This
#                                                                       almost_empty_line
