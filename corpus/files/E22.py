a = 12 + 3
#: E221:5 E229:8
b = 4  + 5
#: E221:1
x             = 1
#: E221:1
y             = 2
long_variable = 3
#: E221:4
x[0]          = 1
#: E221:4
x[1]          = 2
long_variable = 3
#: E221:8 E229:19
x = f(x)          + 1
y = long_variable + 2
#: E221:8 E229:19
z = x[0]          + 3
#: E221+2:13
text = """
    bar
    foo %s"""  % rofl
# Okay
x = 1
y = 2
long_variable = 3


#: E221:7
a = a +  1
b = b + 10
#: E221:3
x =            -1
#: E221:3
y =            -2
long_variable = 3
#: E221:6
x[0] =          1
#: E221:6
x[1] =          2
long_variable = 3


#: E223+1:1
foobart = 4
a	= 3  # aligned with tab


#: E223:4
a +=	1
b += 1000


#: E225:12
submitted +=1
#: E225:9
submitted+= 1
#: E225:3
c =-1
#: E229:7
x = x /2 - 1
#: E229:11
c = alpha -4
#: E229:10
c = alpha- 4
#: E229:8
z = x **y
#: E229:14
z = (x + 1) **y
#: E229:13
z = (x + 1)** y
#: E227:14
_1kB = _1MB >>10
#: E227:11
_1kB = _1MB>> 10
#: E225:1 E225:2 E229:4
i=i+ 1
#: E225:1 E225:2 E229:5
i=i +1
#: E225:1 E225:2
i=i+1
#: E225:3
i =i+1
#: E225:1
i= i+1
#: E229:8
c = (a +b)*(a - b)
#: E229:7
c = (a+ b)*(a - b)

z = 2//30
c = (a+b) * (a-b)
x = x*2 - 1
x = x/2 - 1
# TODO whitespace should be the other way around according to pep8.
x = x / 2-1

hypot2 = x*x + y*y
c = (a + b)*(a - b)


def halves(n):
    return (i//2 for i in range(n))


#: E227:11 E227:13
_1kB = _1MB>>10
#: E227:11 E227:13
_1MB = _1kB<<10
#: E227:5 E227:6
a = b|c
#: E227:5 E227:6
b = c&a
#: E227:5 E227:6
c = b^a
#: E228:5 E228:6
a = b%c
#: E228:9 E228:10
msg = fmt%(errno, errmsg)
#: E228:25 E228:26
msg = "Error %d occurred"%errno

#: E228:7
a = b %c
a = b % c

# Okay
i = i + 1
submitted += 1
x = x * 2 - 1
hypot2 = x * x + y * y
c = (a + b) * (a - b)
_1MiB = 2 ** 20
_1TiB = 2**30
foo(bar, key='word', *args, **kwargs)
baz(**kwargs)
negative = -1
spam(-1)
-negative
func1(lambda *args, **kw: (args, kw))
func2(lambda a, b=h[:], c=0: (a, b, c))
if not -5 < x < +5:
    #: E227:12
    print >>sys.stderr, "x is out of range."
print >> sys.stdout, "x is an integer."
x = x / 2 - 1


def squares(n):
    return (i**2 for i in range(n))


ENG_PREFIXES = {
    -6: "\u03bc",  # Greek letter mu
    -3: "m",
}
