# Okay
class X:
    pass
# Okay


def foo():
    pass


# Okay
# -*- coding: utf-8 -*-
class X:
    pass


# Okay
# -*- coding: utf-8 -*-
def foo():
    pass


# Okay
class X:

    def a():
        pass

    # comment
    def b():
        pass

    # This is a
    # ... multi-line comment

    def c():
        pass


# This is a
# ... multi-line comment

@some_decorator
class Y:

    def a():
        pass

    # comment

    def b():
        pass

    @property
    def c():
        pass


try:
    from nonexistent import Bar
except ImportError:
    class Bar(object):
        """This is a Bar replacement"""


def with_feature(f):
    """Some decorator"""
    wrapper = f
    if has_this_feature(f):
        def wrapper(*args):
            call_feature(args[0])
            return f(*args)
    return wrapper


try:
    next
except NameError:
    def next(iterator, default):
        for item in iterator:
            return item
        return default


def a():
    pass


class Foo():
    """Class Foo"""

    def b():

        pass


# comment
def c():
    pass


# comment


def d():
    pass

# This is a
# ... multi-line comment

# And this one is
# ... a second paragraph
# ... which spans on 3 lines


# Function `e` is below
# NOTE: Hey this is a testcase

def e():
    pass


def a():
    print

    # comment

    print

    print

# Comment 1

# Comment 2


# Comment 3

def b():

    pass


# Okay
def foo():
    pass


def bar():
    pass


class Foo(object):
    pass


class Bar(object):
    pass


if __name__ == '__main__':
    foo()
# Okay
classification_errors = None
# Okay
defined_properly = True
# Okay
defaults = {}
defaults.update({})


# Okay
def foo(x):
    classification = x
    definitely = not classification
