#: E701:6
if a: a = False
#: E701:41
if not header or header[:6] != 'bytes=': pass
#: E702:9
a = False; b = True
#: E702:16 E402
import bdist_egg; bdist_egg.write_safety_flag(cmd.egg_info, safe)
#: E703:12 E402
import shlex;
#: E702:8 E703:22
del a[:]; a.append(42);


#: E704:10
def f(x): return 2


#: E704:10
def f(x): return 2 * x


while all is round:
    #: E704:14
    def f(x): return 2 * x
