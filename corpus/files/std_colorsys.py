"""Conversion functions between RGB and other color systems.

This modules provides two functions for each color system ABC:

  rgb_to_abc(r, g, b) --> a, b, c
  abc_to_rgb(a, b, c) --> r, g, b

All inputs and outputs are triples of floats in the range [0.0...1.0]
(with the exception of I and Q, which covers a slightly larger range).
Inputs outside the valid range may cause exceptions or invalid outputs.

Supported color systems:
RGB: Red, Green, Blue components
YIQ: Luminance, Chrominance (used by composite video signals)
HLS: Hue, Luminance, Saturation
HSV: Hue, Saturation, Value
"""

# References:
# http://en.wikipedia.org/wiki/YIQ
# http://en.wikipedia.org/wiki/HLS_color_space
# http://en.wikipedia.org/wiki/HSV_color_space

__all__ = ["rgb_to_yiq","yiq_to_rgb","rgb_to_hls","hls_to_rgb",
           "rgb_to_hsv","hsv_to_rgb"]

# Some floating point constants

ONE_THIRD = 1.0/3.0
ONE_SIXTH = 1.0/6.0
TWO_THIRD = 2.0/3.0

# YIQ: used by composite video signals (linear combinations of RGB)
# Y: perceived grey level (0.0 == black, 1.0 == white)
# I, Q: color components
#
# There are a great many versions of the constants used in these formulae.
# The ones in this library uses constants from the FCC version of NTSC.

def rgb_to_yiq(r, g, b):
    y = 0.30*r + 0.59*g + 0.11*b
    i = 0.74*(r-y) - 0.27*(b-y)
    q = 0.48*(r-y) + 0.41*(b-y)
    return (y, i, q)

def yiq_to_rgb(y, i, q):
    # r = y + (0.27*q + 0.41*i) / (0.74*0.41 + 0.27*0.48)
    # b = y + (0.74*q - 0.48*i) / (0.74*0.41 + 0.27*0.48)
    # g = y - (0.30*(r-y) + 0.11*(b-y)) / 0.59

    r = y + 0.9468822170900693*i + 0.6235565819861433*q
    g = y - 0.27478764629897834*i - 0.6356910791873801*q
    b = y - 1.1085450346420322*i + 1.7090069284064666*q

    if r < 0.0:
        r = 0.0
    if g < 0.0:
        g = 0.0
    if b < 0.0:
        b = 0.0
    if r > 1.0:
        r = 1.0
    if g > 1.0:
        g = 1.0
    if b > 1.0:
        b = 1.0
    return (r, g, b)


# HLS: Hue, Luminance, Saturation
# H: position in the spectrum
# L: color lightness
# S: color saturation

def rgb_to_hls(r, g, b):
    maxc = max(r, g, b)
    minc = min(r, g, b)
    sumc = (maxc+minc)
    rangec = (maxc-minc)
    l = sumc/2.0
    if minc == maxc:
        return 0.0, l, 0.0
    if l <= 0.5:
        s = rangec / sumc
    else:
        s = rangec / (2.0-maxc-minc)  # Not always 2.0-sumc: gh-106498.
    rc = (maxc-r) / rangec
    gc = (maxc-g) / rangec
    bc = (maxc-b) / rangec
    if r == maxc:
        h = bc-gc
    elif g == maxc:
        h = 2.0+rc-bc
    else:
        h = 4.0+gc-rc
    h = (h/6.0) % 1.0
    return h, l, s

def hls_to_rgb(h, l, s):
    if s == 0.0:
        return l, l, l
    if l <= 0.5:
        m2 = l * (1.0+s)
    else:
        m2 = l+s-(l*s)
    m1 = 2.0*l - m2
    return (_v(m1, m2, h+ONE_THIRD), _v(m1, m2, h), _v(m1, m2, h-ONE_THIRD))

def _v(m1, m2, hue):
    hue = hue % 1.0
    if hue < ONE_SIXTH:
        return m1 + (m2-m1)*hue*6.0
    if hue < 0.5:
        return m2
    if hue < TWO_THIRD:
        return m1 + (m2-m1)*(TWO_THIRD-hue)*6.0
    return m1


# HSV: Hue, Saturation, Value
# H: position in the spectrum
# S: color saturation ("purity")
# V: color brightness

def rgb_to_hsv(r, g, b):
    maxc = max(r, g, b)
    minc = min(r, g, b)
    rangec = (maxc-minc)
    v = maxc
    if minc == maxc:
        return 0.0, 0.0, v
    s = rangec / maxc
    rc = (maxc-r) / rangec
    gc = (maxc-g) / rangec
    bc = (maxc-b) / rangec
    if r == maxc:
        h = bc-gc
    elif g == maxc:
        h = 2.0+rc-bc
    else:
        h = 4.0+gc-rc
    h = (h/6.0) % 1.0
    return h, s, v

def hsv_to_rgb(h, s, v):
    if s == 0.0:
        return v, v, v
    i = int(h*6.0) # XXX assume int() truncates!
    f = (h*6.0) - i
    p = v*(1.0 - s)
    q = v*(1.0 - s*f)
    t = v*(1.0 - s*(1.0-f))
    i = i%6
    if i == 0:
        return v, t, p
    if i == 1:
        return q, v, p
    if i == 2:
        return p, v, t
    if i == 3:
        return p, q, v
    if i == 4:
        return t, p, v
    if i == 5:
        return v, p, q
    # Cannot get here
