"""Heap queue algorithm (a.k.a. priority queue).

Heaps are arrays for which a[k] <= a[2*k+1] and a[k] <= a[2*k+2] for
all k, counting elements from 0.  For the sake of comparison,
non-existing elements are considered to be infinite.  The interesting
property of a heap is that a[0] is always its smallest element.

Usage:

heap = []            # creates an empty heap
heappush(heap, item) # pushes a new item on the heap
item = heappop(heap) # pops the smallest item from the heap
item = heap[0]       # smallest item on the heap without popping it
heapify(x)           # transforms list into a heap, in-place, in linear time
item = heappushpop(heap, item) # pushes a new item and then returns
                               # the smallest item; the heap size is unchanged
item = heapreplace(heap, item) # pops and returns smallest item, and adds
                               # new item; the heap size is unchanged

Our API differs from textbook heap algorithms as follows:

- We use 0-based indexing.  This makes the relationship between the
  index for a node and the indexes for its children slightly less
  obvious, but is more suitable since Python uses 0-based indexing.

- Our heappop() method returns the smallest item, not the largest.

These two make it possible to view the heap as a regular Python list
without surprises: heap[0] is the smallest item, and heap.sort()
maintains the heap invariant!
"""

# Original code by Kevin O'Connor, augmented by Tim Peters and Raymond Hettinger

__about__ = """Heap queues

[explanation by François Pinard]

Heaps are arrays for which a[k] <= a[2*k+1] and a[k] <= a[2*k+2] for
all k, counting elements from 0.  For the sake of comparison,
non-existing elements are considered to be infinite.  The interesting
property of a heap is that a[0] is always its smallest element.

The strange invariant above is meant to be an efficient memory
representation for a tournament.  The numbers below are `k', not a[k]:

                                   0

                  1                                 2

          3               4                5               6

      7       8       9       10      11      12      13      14

    15 16   17 18   19 20   21 22   23 24   25 26   27 28   29 30


In the tree above, each cell `k' is topping `2*k+1' and `2*k+2'.  In
a usual binary tournament we see in sports, each cell is the winner
over the two cells it tops, and we can trace the winner down the tree
to see all opponents s/he had.  However, in many computer applications
of such tournaments, we do not need to trace the history of a winner.
To be more memory efficient, when a winner is promoted, we try to
replace it by something else at a lower level, and the rule becomes
that a cell and the two cells it tops contain three different items,
but the top cell "wins" over the two topped cells.

If this heap invariant is protected at all time, index 0 is clearly
the overall winner.  The simplest algorithmic way to remove it and
find the "next" winner is to move some loser (let's say cell 30 in the
diagram above) into the 0 position, and then percolate this new 0 down
the tree, exchanging values, until the invariant is re-established.
This is clearly logarithmic on the total number of items in the tree.
By iterating over all items, you get an O(n ln n) sort.

A nice feature of this sort is that you can efficiently insert new
items while the sort is going on, provided that the inserted items are
not "better" than the last 0'th element you extracted.  This is
especially useful in simulation contexts, where the tree holds all
incoming events, and the "win" condition means the smallest scheduled
time.  When an event schedule other events for execution, they are
scheduled into the future, so they can easily go into the heap.  So, a
heap is a good structure for implementing schedulers (this is what I
used for my MIDI sequencer :-).

Various structures for implementing schedulers have been extensively
studied, and heaps are good for this, as they are reasonably speedy,
the speed is almost constant, and the worst case is not much different
than the average case.  However, there are other representations which
are more efficient overall, yet the worst cases might be terrible.

Heaps are also very useful in big disk sorts.  You most probably all
know that a big sort implies producing "runs" (which are pre-sorted
sequences, which size is usually related to the amount of CPU memory),
followed by a merging passes for these runs, which merging is often
very cleverly organised[1].  It is very important that the initial
sort produces the longest runs possible.  Tournaments are a good way
to that.  If, using all the memory available to hold a tournament, you
replace and percolate items that happen to fit the current run, you'll
produce runs which are twice the size of the memory for random input,
and much better for input fuzzily ordered.

Moreover, if you output the 0'th item on disk and get an input which
may not fit in the current tournament (because the value "wins" over
the last output value), it cannot fit in the heap, so the size of the
heap decreases.  The freed memory could be cleverly reused immediately
for progressively building a second heap, which grows at exactly the
same rate the first heap is melting.  When the first heap completely
vanishes, you switch heaps and start a new run.  Clever and quite
effective!

In a word, heaps are useful memory structures to know.  I use them in
a few applications, and I think it is good to keep a `heap' module
around. :-)

--------------------
[1] The disk balancing algorithms which are current, nowadays, are
more annoying than clever, and this is a consequence of the seeking
capabilities of the disks.  On devices which cannot seek, like big
tape drives, the story was quite different, and one had to be very
clever to ensure (far in advance) that each tape movement will be the
most effective possible (that is, will best participate at
"progressing" the merge).  Some tapes were even able to read
backwards, and this was also used to avoid the rewinding time.
Believe me, real good tape sorts were quite spectacular to watch!
From all times, sorting has always been a Great Art! :-)
"""

__all__ = ['heappush', 'heappop', 'heapify', 'heapreplace', 'merge',
           'nlargest', 'nsmallest', 'heappushpop']

def heappush(heap, item):
    """Push item onto heap, maintaining the heap invariant."""
    heap.append(item)
    _siftdown(heap, 0, len(heap)-1)

def heappop(heap):
    """Pop the smallest item off the heap, maintaining the heap invariant."""
    lastelt = heap.pop()    # raises appropriate IndexError if heap is empty
    if heap:
        returnitem = heap[0]
        heap[0] = lastelt
        _siftup(heap, 0)
        return returnitem
    return lastelt

def heapreplace(heap, item):
    """Pop and return the current smallest value, and add the new item.

    This is more efficient than heappop() followed by heappush(), and can be
    more appropriate when using a fixed-size heap.  Note that the value
    returned may be larger than item!  That constrains reasonable uses of
    this routine unless written as part of a conditional replacement:

        if item > heap[0]:
            item = heapreplace(heap, item)
    """
    returnitem = heap[0]    # raises appropriate IndexError if heap is empty
    heap[0] = item
    _siftup(heap, 0)
    return returnitem

def heappushpop(heap, item):
    """Fast version of a heappush followed by a heappop."""
    if heap and heap[0] < item:
        item, heap[0] = heap[0], item
        _siftup(heap, 0)
    return item

def heapify(x):
    """Transform list into a heap, in-place, in O(len(x)) time."""
    n = len(x)
    # Transform bottom-up.  The largest index there's any point to looking at
    # is the largest with a child index in-range, so must have 2*i + 1 < n,
    # or i < (n-1)/2.  If n is even = 2*j, this is (2*j-1)/2 = j-1/2 so
    # j-1 is the largest, which is n//2 - 1.  If n is odd = 2*j+1, this is
    # (2*j+1-1)/2 = j so j-1 is the largest, and that's again n//2-1.
    for i in reversed(range(n//2)):
        _siftup(x, i)

def _heappop_max(heap):
    """Maxheap version of a heappop."""
    lastelt = heap.pop()    # raises appropriate IndexError if heap is empty
    if heap:
        returnitem = heap[0]
        heap[0] = lastelt
        _siftup_max(heap, 0)
        return returnitem
    return lastelt

def _heapreplace_max(heap, item):
    """Maxheap version of a heappop followed by a heappush."""
    returnitem = heap[0]    # raises appropriate IndexError if heap is empty
    heap[0] = item
    _siftup_max(heap, 0)
    return returnitem

def _heapify_max(x):
    """Transform list into a maxheap, in-place, in O(len(x)) time."""
    n = len(x)
    for i in reversed(range(n//2)):
        _siftup_max(x, i)

# 'heap' is a heap at all indices >= startpos, except possibly for pos.  pos
# is the index of a leaf with a possibly out-of-order value.  Restore the
# heap invariant.
def _siftdown(heap, startpos, pos):
    newitem = heap[pos]
    # Follow the path to the root, moving parents down until finding a place
    # newitem fits.
    while pos > startpos:
        parentpos = (pos - 1) >> 1
        parent = heap[parentpos]
        if newitem < parent:
            heap[pos] = parent
            pos = parentpos
            continue
        break
    heap[pos] = newitem

# The child indices of heap index pos are already heaps, and we want to make
# a heap at index pos too.  We do this by bubbling the smaller child of
# pos up (and so on with that child's children, etc) until hitting a leaf,
# then using _siftdown to move the oddball originally at index pos into place.
#
# We *could* break out of the loop as soon as we find a pos where newitem <=
# both its children, but turns out that's not a good idea, and despite that
# many books write the algorithm that way.  During a heap pop, the last array
# element is sifted in, and that tends to be large, so that comparing it
# against values starting from the root usually doesn't pay (= usually doesn't
# get us out of the loop early).  See Knuth, Volume 3, where this is
# explained and quantified in an exercise.
#
# Cutting the # of comparisons is important, since these routines have no
# way to extract "the priority" from an array element, so that intelligence
# is likely to be hiding in custom comparison methods, or in array elements
# storing (priority, record) tuples.  Comparisons are thus potentially
# expensive.
#
# On random arrays of length 1000, making this change cut the number of
# comparisons made by heapify() a little, and those made by exhaustive
# heappop() a lot, in accord with theory.  Here are typical results from 3
# runs (3 just to demonstrate how small the variance is):
#
# Compares needed by heapify     Compares needed by 1000 heappops
# --------------------------     --------------------------------
# 1837 cut to 1663               14996 cut to 8680
# 1855 cut to 1659               14966 cut to 8678
# 1847 cut to 1660               15024 cut to 8703
#
# Building the heap by using heappush() 1000 times instead required
# 2198, 2148, and 2219 compares:  heapify() is more efficient, when
# you can use it.
#
# The total compares needed by list.sort() on the same lists were 8627,
# 8627, and 8632 (this should be compared to the sum of heapify() and
# heappop() compares):  list.sort() is (unsurprisingly!) more efficient
# for sorting.

def _siftup(heap, pos):
    endpos = len(heap)
    startpos = pos
    newitem = heap[pos]
    # Bubble up the smaller child until hitting a leaf.
    childpos = 2*pos + 1    # leftmost child position
    while childpos < endpos:
        # Set childpos to index of smaller child.
        rightpos = childpos + 1
        if rightpos < endpos and not heap[childpos] < heap[rightpos]:
            childpos = rightpos
        # Move the smaller child up.
        heap[pos] = heap[childpos]
        pos = childpos
        childpos = 2*pos + 1
    # The leaf at pos is empty now.  Put newitem there, and bubble it up
    # to its final resting place (by sifting its parents down).
    heap[pos] = newitem
    _siftdown(heap, startpos, pos)

def _siftdown_max(heap, startpos, pos):
    'Maxheap variant of _siftdown'
    newitem = heap[pos]
    # Follow the path to the root, moving parents down until finding a place
    # newitem fits.
    while pos > startpos:
        parentpos = (pos - 1) >> 1
        parent = heap[parentpos]
        if parent < newitem:
            heap[pos] = parent
            pos = parentpos
            continue
        break
    heap[pos] = newitem

def _siftup_max(heap, pos):
    'Maxheap variant of _siftup'
    endpos = len(heap)
    startpos = pos
    newitem = heap[pos]
    # Bubble up the larger child until hitting a leaf.
    childpos = 2*pos + 1    # leftmost child position
    while childpos < endpos:
        # Set childpos to index of larger child.
        rightpos = childpos + 1
        if rightpos < endpos and not heap[rightpos] < heap[childpos]:
            childpos = rightpos
        # Move the larger child up.
        heap[pos] = heap[childpos]
        pos = childpos
        childpos = 2*pos + 1
    # The leaf at pos is empty now.  Put newitem there, and bubble it up
    # to its final resting place (by sifting its parents down).
    heap[pos] = newitem
    _siftdown_max(heap, startpos, pos)

def merge(*iterables, key=None, reverse=False):
    '''Merge multiple sorted inputs into a single sorted output.

    Similar to sorted(itertools.chain(*iterables)) but returns a generator,
    does not pull the data into memory all at once, and assumes that each of
    the input streams is already sorted (smallest to largest).

    >>> list(merge([1,3,5,7], [0,2,4,8], [5,10,15,20], [], [25]))
    [0, 1, 2, 3, 4, 5, 5, 7, 8, 10, 15, 20, 25]

    If *key* is not None, applies a key function to each element to determine
    its sort order.

    >>> list(merge(['dog', 'horse'], ['cat', 'fish', 'kangaroo'], key=len))
    ['dog', 'cat', 'fish', 'horse', 'kangaroo']

    '''

    h = []
    h_append = h.append

    if reverse:
        _heapify = _heapify_max
        _heappop = _heappop_max
        _heapreplace = _heapreplace_max
        direction = -1
    else:
        _heapify = heapify
        _heappop = heappop
        _heapreplace = heapreplace
        direction = 1

    if key is None:
        for order, it in enumerate(map(iter, iterables)):
            try:
                next = it.__next__
                h_append([next(), order * direction, next])
            except StopIteration:
                pass
        _heapify(h)
        while len(h) > 1:
            try:
                while True:
                    value, order, next = s = h[0]
                    yield value
                    s[0] = next()           # raises StopIteration when exhausted
                    _heapreplace(h, s)      # restore heap condition
            except StopIteration:
                _heappop(h)                 # remove empty iterator
        if h:
            # fast case when only a single iterator remains
            value, order, next = h[0]
            yield value
            yield from next.__self__
        return

    for order, it in enumerate(map(iter, iterables)):
        try:
            next = it.__next__
            value = next()
            h_append([key(value), order * direction, value, next])
        except StopIteration:
            pass
    _heapify(h)
    while len(h) > 1:
        try:
            while True:
                key_value, order, value, next = s = h[0]
                yield value
                value = next()
                s[0] = key(value)
                s[2] = value
                _heapreplace(h, s)
        except StopIteration:
            _heappop(h)
    if h:
        key_value, order, value, next = h[0]
        yield value
        yield from next.__self__


# Algorithm notes for nlargest() and nsmallest()
# ==============================================
#
# Make a single pass over the data while keeping the k most extreme values
# in a heap.  Memory consumption is limited to keeping k values in a list.
#
# Measured performance for random inputs:
#
#                                   number of comparisons
#    n inputs     k-extreme values  (average of 5 trials)   % more than min()
# -------------   ----------------  ---------------------   -----------------
#      1,000           100                  3,317               231.7%
#     10,000           100                 14,046                40.5%
#    100,000           100                105,749                 5.7%
#  1,000,000           100              1,007,751                 0.8%
# 10,000,000           100             10,009,401                 0.1%
#
# Theoretical number of comparisons for k smallest of n random inputs:
#
# Step   Comparisons                  Action
# ----   --------------------------   ---------------------------
#  1     1.66 * k                     heapify the first k-inputs
#  2     n - k                        compare remaining elements to top of heap
#  3     k * (1 + lg2(k)) * ln(n/k)   replace the topmost value on the heap
#  4     k * lg2(k) - (k/2)           final sort of the k most extreme values
#
# Combining and simplifying for a rough estimate gives:
#
#        comparisons = n + k * (log(k, 2) * log(n/k) + log(k, 2) + log(n/k))
#
# Computing the number of comparisons for step 3:
# -----------------------------------------------
# * For the i-th new value from the iterable, the probability of being in the
#   k most extreme values is k/i.  For example, the probability of the 101st
#   value seen being in the 100 most extreme values is 100/101.
# * If the value is a new extreme value, the cost of inserting it into the
#   heap is 1 + log(k, 2).
# * The probability times the cost gives:
#            (k/i) * (1 + log(k, 2))
# * Summing across the remaining n-k elements gives:
#            sum((k/i) * (1 + log(k, 2)) for i in range(k+1, n+1))
# * This reduces to:
#            (H(n) - H(k)) * k * (1 + log(k, 2))
# * Where H(n) is the n-th harmonic number estimated by:
#            gamma = 0.5772156649
#            H(n) = log(n, e) + gamma + 1 / (2 * n)
#   http://en.wikipedia.org/wiki/Harmonic_series_(mathematics)#Rate_of_divergence
# * Substituting the H(n) formula:
#            comparisons = k * (1 + log(k, 2)) * (log(n/k, e) + (1/n - 1/k) / 2)
#
# Worst-case for step 3:
# ----------------------
# In the worst case, the input data is reversed sorted so that every new element
# must be inserted in the heap:
#
#             comparisons = 1.66 * k + log(k, 2) * (n - k)
#
# Alternative Algorithms
# ----------------------
# Other algorithms were not used because they:
# 1) Took much more auxiliary memory,
# 2) Made multiple passes over the data.
# 3) Made more comparisons in common cases (small k, large n, semi-random input).
# See the more detailed comparison of approach at:
# http://code.activestate.com/recipes/577573-compare-algorithms-for-heapqsmallest

def nsmallest(n, iterable, key=None):
    """Find the n smallest elements in a dataset.

    Equivalent to:  sorted(iterable, key=key)[:n]
    """

    # Short-cut for n==1 is to use min()
    if n == 1:
        it = iter(iterable)
        sentinel = object()
        result = min(it, default=sentinel, key=key)
        return [] if result is sentinel else [result]

    # When n>=size, it's faster to use sorted()
    try:
        size = len(iterable)
    except (TypeError, AttributeError):
        pass
    else:
        if n >= size:
            return sorted(iterable, key=key)[:n]

    # When key is none, use simpler decoration
    if key is None:
        it = iter(iterable)
        # put the range(n) first so that zip() doesn't
        # consume one too many elements from the iterator
        result = [(elem, i) for i, elem in zip(range(n), it)]
        if not result:
            return result
        _heapify_max(result)
        top = result[0][0]
        order = n
        _heapreplace = _heapreplace_max
        for elem in it:
            if elem < top:
                _heapreplace(result, (elem, order))
                top, _order = result[0]
                order += 1
        result.sort()
        return [elem for (elem, order) in result]

    # General case, slowest method
    it = iter(iterable)
    result = [(key(elem), i, elem) for i, elem in zip(range(n), it)]
    if not result:
        return result
    _heapify_max(result)
    top = result[0][0]
    order = n
    _heapreplace = _heapreplace_max
    for elem in it:
        k = key(elem)
        if k < top:
            _heapreplace(result, (k, order, elem))
            top, _order, _elem = result[0]
            order += 1
    result.sort()
    return [elem for (k, order, elem) in result]

def nlargest(n, iterable, key=None):
    """Find the n largest elements in a dataset.

    Equivalent to:  sorted(iterable, key=key, reverse=True)[:n]
    """

    # Short-cut for n==1 is to use max()
    if n == 1:
        it = iter(iterable)
        sentinel = object()
        result = max(it, default=sentinel, key=key)
        return [] if result is sentinel else [result]

    # When n>=size, it's faster to use sorted()
    try:
        size = len(iterable)
    except (TypeError, AttributeError):
        pass
    else:
        if n >= size:
            return sorted(iterable, key=key, reverse=True)[:n]

    # When key is none, use simpler decoration
    if key is None:
        it = iter(iterable)
        result = [(elem, i) for i, elem in zip(range(0, -n, -1), it)]
        if not result:
            return result
        heapify(result)
        top = result[0][0]
        order = -n
        _heapreplace = heapreplace
        for elem in it:
            if top < elem:
                _heapreplace(result, (elem, order))
                top, _order = result[0]
                order -= 1
        result.sort(reverse=True)
        return [elem for (elem, order) in result]

    # General case, slowest method
    it = iter(iterable)
    result = [(key(elem), i, elem) for i, elem in zip(range(0, -n, -1), it)]
    if not result:
        return result
    heapify(result)
    top = result[0][0]
    order = -n
    _heapreplace = heapreplace
    for elem in it:
        k = key(elem)
        if top < k:
            _heapreplace(result, (k, order, elem))
            top, _order, _elem = result[0]
            order -= 1
    result.sort(reverse=True)
    return [elem for (k, order, elem) in result]

# If available, use C implementation
try:
    from _heapq import *
except ImportError:
    pass
try:
    from _heapq import _heapreplace_max
except ImportError:
    pass
try:
    from _heapq import _heapify_max
except ImportError:
    pass
try:
    from _heapq import _heappop_max
except ImportError:
    pass


if __name__ == "__main__":

    import doctest # pragma: no cover
    print(doctest.testmod()) # pragma: no cover
