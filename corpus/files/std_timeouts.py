import enum

from types import TracebackType
from typing import final, Optional, Type

from . import events
from . import exceptions
from . import tasks


__all__ = (
    "Timeout",
    "timeout",
    "timeout_at",
)


class _State(enum.Enum):
    CREATED = "created"
    ENTERED = "active"
    EXPIRING = "expiring"
    EXPIRED = "expired"
    EXITED = "finished"


@final
class Timeout:
    """Asynchronous context manager for cancelling overdue coroutines.

    Use `timeout()` or `timeout_at()` rather than instantiating this class directly.
    """

    def __init__(self, when: Optional[float]) -> None:
        """Schedule a timeout that will trigger at a given loop time.

        - If `when` is `None`, the timeout will never trigger.
        - If `when < loop.time()`, the timeout will trigger on the next
          iteration of the event loop.
        """
        self._state = _State.CREATED

        self._timeout_handler: Optional[events.TimerHandle] = None
        self._task: Optional[tasks.Task] = None
        self._when = when

    def when(self) -> Optional[float]:
        """Return the current deadline."""
        return self._when

    def reschedule(self, when: Optional[float]) -> None:
        """Reschedule the timeout."""
        if self._state is not _State.ENTERED:
            if self._state is _State.CREATED:
                raise RuntimeError("Timeout has not been entered")
            raise RuntimeError(
                f"Cannot change state of {self._state.value} Timeout",
            )

        self._when = when

        if self._timeout_handler is not None:
            self._timeout_handler.cancel()

        if when is None:
            self._timeout_handler = None
        else:
            loop = events.get_running_loop()
            if when <= loop.time():
                self._timeout_handler = loop.call_soon(self._on_timeout)
            else:
                self._timeout_handler = loop.call_at(when, self._on_timeout)

    def expired(self) -> bool:
        """Is timeout expired during execution?"""
        return self._state in (_State.EXPIRING, _State.EXPIRED)

    def __repr__(self) -> str:
        info = ['']
        if self._state is _State.ENTERED:
            when = round(self._when, 3) if self._when is not None else None
            info.append(f"when={when}")
        info_str = ' '.join(info)
        return f"<Timeout [{self._state.value}]{info_str}>"

    async def __aenter__(self) -> "Timeout":
        if self._state is not _State.CREATED:
            raise RuntimeError("Timeout has already been entered")
        task = tasks.current_task()
        if task is None:
            raise RuntimeError("Timeout should be used inside a task")
        self._state = _State.ENTERED
        self._task = task
        self._cancelling = self._task.cancelling()
        self.reschedule(self._when)
        return self

    async def __aexit__(
        self,
        exc_type: Optional[Type[BaseException]],
        exc_val: Optional[BaseException],
        exc_tb: Optional[TracebackType],
    ) -> Optional[bool]:
        assert self._state in (_State.ENTERED, _State.EXPIRING)

        if self._timeout_handler is not None:
            self._timeout_handler.cancel()
            self._timeout_handler = None

        if self._state is _State.EXPIRING:
            self._state = _State.EXPIRED

            if self._task.uncancel() <= self._cancelling and exc_type is exceptions.CancelledError:
                # Since there are no new cancel requests, we're
                # handling this.
                raise TimeoutError from exc_val
        elif self._state is _State.ENTERED:
            self._state = _State.EXITED

        return None

    def _on_timeout(self) -> None:
        assert self._state is _State.ENTERED
        self._task.cancel()
        self._state = _State.EXPIRING
        # drop the reference early
        self._timeout_handler = None


def timeout(delay: Optional[float]) -> Timeout:
    """Timeout async context manager.

    Useful in cases when you want to apply timeout logic around block
    of code or in cases when asyncio.wait_for is not suitable. For example:

    >>> async with asyncio.timeout(10):  # 10 seconds timeout
    ...     await long_running_task()


    delay - value in seconds or None to disable timeout logic

    long_running_task() is interrupted by raising asyncio.CancelledError,
    the top-most affected timeout() context manager converts CancelledError
    into TimeoutError.
    """
    loop = events.get_running_loop()
    return Timeout(loop.time() + delay if delay is not None else None)


def timeout_at(when: Optional[float]) -> Timeout:
    """Schedule the timeout at absolute time.

    Like timeout() but argument gives absolute time in the same clock system
    as loop.time().

    Please note: it is not POSIX time but a time with
    undefined starting base, e.g. the time of the system power on.

    >>> async with asyncio.timeout_at(loop.time() + 10):
    ...     await long_running_task()


    when - a deadline when timeout occurs or None to disable timeout logic

    long_running_task() is interrupted by raising asyncio.CancelledError,
    the top-most affected timeout() context manager converts CancelledError
    into TimeoutError.
    """
    return Timeout(when)
