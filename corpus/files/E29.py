# Okay
# 情
#: W291:5
print 


#: W291+1
class Foo(object):
    
    bang = 12


#: W291+1:34
'''multiline
string with trailing whitespace'''   
