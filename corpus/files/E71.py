#: E711:7
if res == None:
    pass
#: E711:7
if res != None:
    pass
#: E711:8
if None == res:
    pass
#: E711:8
if None != res:
    pass
#: E711:10
if res[1] == None:
    pass
#: E711:10
if res[1] != None:
    pass
#: E711:8
if None != res[1]:
    pass
#: E711:8
if None == res[1]:
    pass

#
#: E712:7
if res == True:
    pass
#: E712:7
if res != False:
    pass
#: E712:8
if True != res:
    pass
#: E712:9
if False == res:
    pass
#: E712:10
if res[1] == True:
    pass
#: E712:10
if res[1] != False:
    pass

if x is False:
    pass

#
#: E713:9
if not X in Y:
    pass
#: E713:11
if not X.B in Y:
    pass
#: E713:9
if not X in Y and Z == "zero":
    pass
#: E713:24
if X == "zero" or not Y in Z:
    pass

#
#: E714:9
if not X is Y:
    pass
#: E714:11
if not X.B is Y:
    pass

#
# Okay
if x not in y:
    pass

if not (X in Y or X is Z):
    pass

if not (X in Y):
    pass

if x is not y:
    pass

if TrueElement.get_element(True) == TrueElement.get_element(False):
    pass

if (True) == TrueElement or x == TrueElement:
    pass

assert (not foo) in bar
assert {'x': not foo} in bar
assert [42, not foo] in bar
