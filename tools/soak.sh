#!/bin/bash
# Soak: run the four checks over a range of VERIF_SEED values; stop at the first alarm.
# usage: tools/soak.sh <first seed> <last seed> [wall per check]
cd "$(dirname "$0")/.."
a=${1:-10}; b=${2:-20}; wall=${3:-240}
for s in $(seq $a $b); do
  for p in C16 C17 C04 C18; do
    VERIF_SEED=$s /venv/bin/python check.py run $p --wall $wall --no-selftest 2>/dev/null | grep -E "^(VIOLATION|runs=|HARNESS|KNOWN|  clause)" | cut -c1-500
    rc=${PIPESTATUS[0]}
    echo "== seed $s $p rc=$rc $(date +%H:%M:%S)"
    if [ $rc -ne 0 ]; then echo "ALARM seed=$s prop=$p"; cp -r replays /tmp/soak_replays_$s_$p 2>/dev/null; exit 1; fi
  done
done
echo SOAK-CLEAN $a..$b
