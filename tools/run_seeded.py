#!/venv/bin/python
"""Run the registered checks against every seeded change under /verif/seeded/.

For each seeded/<id>/ : a scratch git worktree of /repo (under /tmp, removed afterwards) gets
patch.diff applied; the demonstration is run with and without the change; optionally the
repository's test suite is run with the change; then the check(s) of the property the change is
meant to break are run with VERIF_REPO pointing at the worktree.  The outcome is written to
seeded/<id>/result.json.  /repo itself is never modified.

  tools/run_seeded.py [--wall 60] [--suite] [id ...]
"""
import json
import os
import subprocess
import sys
import time

VERIF = os.path.dirname(os.path.dirname(os.path.abspath(__file__)))
PY = '/venv/bin/python'


def sh(cmd, **kw):
    return subprocess.run(cmd, shell=isinstance(cmd, str), capture_output=True, text=True, **kw)


def main():
    args = sys.argv[1:]
    wall = 60
    suite = False
    ids = []
    while args:
        a = args.pop(0)
        if a == '--wall':
            wall = int(args.pop(0))
        elif a == '--suite':
            suite = True
        else:
            ids.append(a)
    if not ids:
        ids = sorted(d for d in os.listdir(os.path.join(VERIF, 'seeded'))
                     if os.path.isfile(os.path.join(VERIF, 'seeded', d, 'patch.diff')))
    for sid in ids:
        d = os.path.join(VERIF, 'seeded', sid)
        meta = {}
        if os.path.exists(os.path.join(d, 'meta.json')):
            meta = json.load(open(os.path.join(d, 'meta.json')))
        props = meta.get('checks') or [meta.get('property') or
                                       {'c04': 'C04', 'c16': 'C16', 'c17': 'C17', 'c18': 'C18'}.get(sid[:3], 'C17')]
        wt = '/tmp/wt_seeded_%s_%d' % (sid, os.getpid())
        r = sh(['git', '-C', '/repo', 'worktree', 'add', '-q', '--detach', wt, 'HEAD'])
        if r.returncode:
            print(sid, 'cannot create worktree', r.stderr)
            continue
        res = {'id': sid, 'repo_head': sh(['git', '-C', '/repo', 'rev-parse', '--short', 'HEAD']).stdout.strip(),
               'wall_per_check_s': wall, 'when': time.strftime('%Y-%m-%d %H:%M:%S')}
        try:
            r = sh(['git', '-C', wt, 'apply', os.path.join(d, 'patch.diff')])
            res['applies'] = r.returncode == 0
            if not res['applies']:
                res['apply_error'] = r.stderr[:300]
            else:
                demo = os.path.join(d, 'demo.py')
                if os.path.exists(demo):
                    a = sh([PY, demo], env=dict(os.environ, PYTHONPATH=wt), timeout=300)
                    b = sh([PY, demo], env=dict(os.environ, PYTHONPATH='/repo'), timeout=300)
                    res['demo_exit_with_change'] = a.returncode
                    res['demo_exit_without_change'] = b.returncode
                if suite:
                    t = sh('cd %s && %s -m pytest -q -p no:cacheprovider -x -n 8 2>&1 | tail -1' % (wt, PY))
                    res['suite_with_change'] = t.stdout.strip()
                res['checks'] = {}
                for prop in props:
                    c = sh([PY, os.path.join(VERIF, 'check.py'), 'run', prop, '--wall', str(wall), '--no-selftest'],
                           env=dict(os.environ, VERIF_REPO=wt, **(meta.get('env') or {})), cwd=VERIF, timeout=wall * 4 + 600)
                    lines = c.stdout.splitlines()
                    viol = [i for i, ln in enumerate(lines) if ln.startswith('VIOLATION')]
                    res.setdefault('_replays', []).extend(lines[i].split('replay=')[-1].strip() for i in viol)
                    if viol:
                        # keep the first minimised replay file next to the seeded change
                        rp = lines[viol[0]].split('replay=')[-1].strip()
                        try:
                            with open(rp) as f:
                                data = f.read()
                            if len(data) < 400000:
                                with open(os.path.join(d, 'replay-%s.json' % prop), 'w') as f:
                                    f.write(data)
                        except OSError:
                            pass
                    res['checks'][prop] = {
                        'exit': c.returncode,
                        'violation_lines': len(viol),
                        'first_violation': (lines[viol[0] + 1].strip()[:300] if viol and viol[0] + 1 < len(lines) else None),
                        'summary': next((ln for ln in lines if ln.startswith('runs=')), '')[:200],
                    }
                res['detected'] = any(v['exit'] == 1 for v in res['checks'].values())
        finally:
            sh(['git', '-C', '/repo', 'worktree', 'remove', '--force', wt])
            for rp in res.get('_replays', []):          # only the replay files of this run (other checks may be running)
                try:
                    os.remove(rp)
                except OSError:
                    pass
            res.pop('_replays', None)
        with open(os.path.join(d, 'result.json'), 'w') as f:
            json.dump(res, f, indent=1)
        print(sid, 'applies=%s' % res.get('applies'), 'demo=%s/%s' % (res.get('demo_exit_with_change'),
                                                                      res.get('demo_exit_without_change')),
              res.get('suite_with_change', ''), 'DETECTED' if res.get('detected') else 'missed',
              {k: v['first_violation'] and v['first_violation'][:90] for k, v in res.get('checks', {}).items()})
        sys.stdout.flush()


if __name__ == '__main__':
    main()
