#!/venv/bin/python
"""Differential test of the SimFS stub against the real file system.

Random sequences of the calls parso makes (through the *patched* os / open entry points) are run
once under /__simfs__ and once in a real temporary directory; results (return values, exception
classes, directory listings, file contents, sizes, st_mtime ordering) must agree.  Permission bits
are not compared (the sandbox runs as root, which bypasses them on the real side).

  tools/simfs_diff.py [sequences] [seed]
"""
import os
import random
import shutil
import sys
import tempfile

HERE = os.path.dirname(os.path.dirname(os.path.abspath(__file__)))
sys.path.insert(0, HERE)
from dst import simfs  # noqa: E402


def run_seq(rng, root, nops):
    names = ['a', 'b', 'c', 'd/e', 'd/f', 'd', 'g.pkl', 'd/g.pkl.tmp']
    out = []
    handles = {}

    def P(n):
        return os.path.join(root, n)

    for step in range(nops):
        k = rng.choice(['mkdir', 'makedirs', 'write', 'append', 'read', 'remove', 'replace', 'listdir', 'stat',
                        'exists', 'isdir', 'scandir', 'rmdir', 'open_keep', 'read_kept', 'write_kept', 'close_kept',
                        'rmtree', 'xcreate', 'utime'])
        n = rng.choice(names)
        n2 = rng.choice(names)
        try:
            if k == 'mkdir':
                os.mkdir(P(n)); r = None
            elif k == 'makedirs':
                os.makedirs(P(n), exist_ok=rng.random() < 0.5); r = None
            elif k == 'write':
                data = bytes(rng.randrange(256) for _ in range(rng.randrange(40)))
                with open(P(n), 'wb') as f:
                    f.write(data)
                r = len(data)
            elif k == 'append':
                with open(P(n), 'ab') as f:
                    f.write(b'xyz')
                r = None
            elif k == 'xcreate':
                with open(P(n), 'xb') as f:
                    f.write(b'new')
                r = None
            elif k == 'read':
                with open(P(n), 'rb') as f:
                    r = f.read()
            elif k == 'remove':
                os.remove(P(n)); r = None
            elif k == 'replace':
                os.replace(P(n), P(n2)); r = None
            elif k == 'listdir':
                r = sorted(os.listdir(P(n)))
            elif k == 'scandir':
                r = sorted((e.name, e.is_dir(), e.stat().st_size if not e.is_dir() else 0) for e in os.scandir(P(n)))
            elif k == 'stat':
                st = os.stat(P(n))
                r = (st.st_size if not os.path.isdir(P(n)) else -1)
            elif k == 'exists':
                r = os.path.exists(P(n))
            elif k == 'isdir':
                r = os.path.isdir(P(n))
            elif k == 'rmdir':
                os.rmdir(P(n)); r = None
            elif k == 'rmtree':
                shutil.rmtree(P(n)); r = None
            elif k == 'utime':
                os.utime(P(n), (1000.0, 2000.0))
                r = os.stat(P(n)).st_mtime
            elif k == 'open_keep':
                mode = rng.choice(['rb', 'wb', 'r+b'])
                if n in handles:
                    handles.pop(n).close()
                handles[n] = open(P(n), mode)
                r = mode
            elif k == 'read_kept':
                if n in handles:
                    r = handles[n].read(5)
                else:
                    r = 'nohandle'
            elif k == 'write_kept':
                if n in handles:
                    handles[n].write(b'K' * rng.randrange(1, 6))
                    handles[n].flush()
                    r = 'w'
                else:
                    r = 'nohandle'
            elif k == 'close_kept':
                if n in handles:
                    handles.pop(n).close()
                r = None
        except OSError as e:
            r = ('OSError', type(e).__name__)
        except (ValueError, io_unsupported()) as e:
            r = ('err', type(e).__name__)
        out.append((k, n, n2 if k == 'replace' else '', r))
    for h in handles.values():
        try:
            h.close()
        except Exception:
            pass
    # final state
    state = []
    for dirpath, dirnames, filenames in os.walk(root):
        dirnames.sort()
        rel = os.path.relpath(dirpath, root)
        for fn in sorted(filenames):
            with open(os.path.join(dirpath, fn), 'rb') as f:
                state.append((rel, fn, f.read()))
        for dn in dirnames:
            state.append((rel, dn, None))
    out.append(('state', state))
    return out


def io_unsupported():
    import io
    return io.UnsupportedOperation


def main():
    nseq = int(sys.argv[1]) if len(sys.argv) > 1 else 500
    seed = int(sys.argv[2]) if len(sys.argv) > 2 else 0
    simfs.install()
    bad = 0
    for i in range(nseq):
        s = seed * 1000003 + i
        now = [1e9]

        def clock():
            now[0] += 1.0
            return now[0]
        fs = simfs.SimFS(clock)
        simfs.activate(fs)
        fs.h_mkdirs(simfs.ROOT + '/w')
        a = run_seq(random.Random(s), simfs.ROOT + '/w', 40)
        simfs.activate(None)
        tmp = tempfile.mkdtemp(prefix='simfsdiff')
        try:
            b = run_seq(random.Random(s), tmp, 40)
        finally:
            shutil.rmtree(tmp, ignore_errors=True)
        if a != b:
            bad += 1
            for x, y in zip(a, b):
                if x != y:
                    print('sequence %d diverges: sim %r | real %r' % (s, x, y))
                    break
            if bad > 5:
                break
    print('%d sequences, %d divergent' % (nseq, bad))
    return 1 if bad else 0


if __name__ == '__main__':
    sys.exit(main())
