#!/bin/bash
# Soak with more weight on C04: per seed C04 <w4> s, the others <w> s; stop at the first alarm.
# usage: tools/soak2.sh <first seed> <last seed> [w4] [w]
cd "$(dirname "$0")/.."
a=${1:-100}; b=${2:-160}; w4=${3:-240}; w=${4:-100}
for s in $(seq $a $b); do
  for p in C04 C16 C17 C18; do
    wall=$w; [ $p = C04 ] && wall=$w4
    VERIF_SEED=$s /venv/bin/python check.py run $p --wall $wall --no-selftest 2>/dev/null | grep -v "^faults\|^probes" | cut -c1-600
    rc=${PIPESTATUS[0]}
    echo "== seed $s $p rc=$rc"
    if [ $rc -ne 0 ]; then echo "ALARM seed=$s prop=$p"; exit 1; fi
  done
done
echo SOAK-CLEAN $a..$b
