#!/bin/bash
# One-off large determinism self-test: N seeds per property, each run twice in fresh interpreters
# under different PYTHONHASHSEED values, generate + replay digests compared.
# usage: tools/selftest_big.sh [N per property] [C18 N]
cd "$(dirname "$0")/.."
N=${1:-300}; M=${2:-40}
for prop in C04 C16 C17; do
  for part in 0 1 2 3; do
    seeds=$(/venv/bin/python -c "print(','.join(str(7000000+$part*100000+i) for i in range($N//4)))")
    ( PYTHONHASHSEED=0 /venv/bin/python check.py digest $prop quick $seeds > /tmp/st_${prop}_${part}_a.json 2>/dev/null ) &
    ( PYTHONHASHSEED=424242 /venv/bin/python check.py digest $prop quick $seeds > /tmp/st_${prop}_${part}_b.json 2>/dev/null ) &
  done
  wait
  for part in 0 1 2 3; do
    /venv/bin/python - <<EOF
import json
a=json.loads(open('/tmp/st_${prop}_${part}_a.json').read().strip().splitlines()[-1]); b=json.loads(open('/tmp/st_${prop}_${part}_b.json').read().strip().splitlines()[-1])
bad=[x for x,y in zip(a,b) if x!=y or x[1]!=x[2]]
print('$prop part $part: %d seeds, %d divergent' % (len(a), len(bad)), bad[:2])
EOF
  done
done
seeds=$(/venv/bin/python -c "print(','.join(str(7000000+i) for i in range($M)))")
( PYTHONHASHSEED=0 /venv/bin/python check.py digest C18 quick $seeds > /tmp/st_C18_a.json 2>/dev/null ) &
( PYTHONHASHSEED=424242 /venv/bin/python check.py digest C18 quick $seeds > /tmp/st_C18_b.json 2>/dev/null ) &
wait
/venv/bin/python - <<EOF
import json
a=json.loads(open('/tmp/st_C18_a.json').read().strip().splitlines()[-1]); b=json.loads(open('/tmp/st_C18_b.json').read().strip().splitlines()[-1])
bad=[x for x,y in zip(a,b) if x!=y or x[1]!=x[2]]
print('C18: %d seeds, %d divergent' % (len(a), len(bad)), bad[:2])
EOF
rm -f /tmp/st_C*_*.json
