"""Canonical tree serialisation shared by both simulators."""
import hashlib


def tree_sig(module):
    """(digest, problems) - canonical serialisation incl. positions; checks parents."""
    h = hashlib.sha1()
    up = h.update
    problems = []
    if module.parent is not None:
        problems.append('root has a parent')
    stack = [module]
    while stack:
        n = stack.pop()
        ch = getattr(n, 'children', None)
        if ch is not None:
            up(('N%s/%d;' % (n.type, len(ch))).encode())
            for c in ch:
                if c.parent is not n:
                    problems.append('child %r of %r has parent %r' % (c, n, c.parent))
            stack.extend(reversed(ch))
        else:
            tt = getattr(n, 'token_type', '')
            up(('L%s|%r|%r|%r|%r|%s;' % (n.type, n.value, n.prefix, n.start_pos, n.end_pos, tt)
                ).encode('utf-8', 'surrogatepass'))
    return h.hexdigest(), problems


def code_of(module):
    """What module.get_code() returns (prefix + value of every leaf, in order), without recursion:
    the reference oracle must cope with trees that are deeper than the interpreter's recursion limit."""
    out = []
    stack = [module]
    while stack:
        n = stack.pop()
        ch = getattr(n, 'children', None)
        if ch is not None:
            stack.extend(reversed(ch))
        else:
            out.append(n.prefix)
            out.append(n.value)
    return ''.join(out)


def tree_lines(module):
    """Readable serialisation used only to describe a mismatch."""
    out = []
    stack = [(module, 0)]
    while stack:
        n, d = stack.pop()
        ch = getattr(n, 'children', None)
        if ch is not None:
            out.append('%s%s[%d]' % (' ' * d, n.type, len(ch)))
            stack.extend((c, d + 1) for c in reversed(ch))
        else:
            out.append('%s%s %r prefix=%r %r-%r %s' % (' ' * d, n.type, n.value, n.prefix, n.start_pos,
                                                        n.end_pos, getattr(n, 'token_type', '')))
    return out
