"""Texts and seeded edit operators.  Pure functions of a random.Random."""
import json
import os

HERE = os.path.dirname(os.path.abspath(__file__))
CORPUS = os.path.join(os.path.dirname(HERE), 'corpus')

VERSIONS = ['3.6', '3.7', '3.8', '3.9', '3.10', '3.11', '3.12', '3.13', '3.14']

SNIPPETS = [
    "x = 1\n",
    # a statement that ends in a backslash continuation at the end of the file, in every newline style
    "x = 1 \\\n", "x = 1 \\\r", "x = 1 \\\r\n", "y = 0\rx = 1 \\\r", "def f():\r    return 1 + \\\r",
    "if x: \\\n", "x = [1,\n     2] \\\n\n",
    # a class body with several attributes followed by several methods (and the same for a function)
    "class C:\n    a = 1\n    b = 2\n    def f(self):\n        return 1\n    def g(self):\n        return 2\n",
    "def outer(p):\n    a = 1\n    b = 2\n    def f():\n        return a\n    def g():\n        return b\n    return f, g\n",
    # ... or is followed by an empty / comment-only line
    "x = 1 \\\n\ny = 2\n", "x = 1 \\\n# c\ny = 2\n", "def f():\n    a = 1 \\\n\n    b = 2\nc = 3\n", "x = 1 \\\r\n\r\ny = 2\r\n",
    "import os\nimport sys\n\nx = os.path.join(sys.prefix, 'a')\n",
    "def f(a, b=3, *args, **kw):\n    return a + b\n",
    "def f():\n    if x:\n        return 1\n    else:\n        return 2\n\n\ndef g():\n    pass\n",
    "class A(object):\n    x = 1\n\n    def m(self):\n        return self.x\n\n    @property\n    def p(self):\n        return 3\n",
    "class C:\n    def a(self):\n        pass\n\n    def b(self):\n        pass\n\n    def c(self):\n        pass\n",
    "@decorator\n@another(1, 2)\ndef f(x):\n    return x\n",
    "@dec\nclass K:\n    @staticmethod\n    def s():\n        return 1\n    @classmethod\n    def c(cls):\n        return cls\n",
    "async def f():\n    async with a as b:\n        await c\n    async for x in y:\n        pass\n",
    "async def g(it):\n    return [x async for x in it if await x]\n",
    "for i in range(3):\n    if i:\n        continue\n    else:\n        break\nelse:\n    pass\n",
    "while True:\n    try:\n        x()\n    except E as e:\n        raise\n    except (A, B):\n        pass\n    else:\n        y()\n    finally:\n        z()\n",
    "try:\n    pass\nfinally:\n    pass\n",
    "with open(f) as a, open(g) as b:\n    pass\n",
    "with (open(f) as a, open(g) as b):\n    pass\n",
    "if a:\n    pass\nelif b:\n    pass\nelif c:\n    pass\nelse:\n    pass\n",
    "x = f'{a}'\ny = f'{a!r:>{w}}'\nz = f'''{\n  a\n}'''\n",
    "x = f'{a'\ny = 1\n",
    "x = f\"{a['b']}\"\n",
    "x = f'{a + f\"{b}\"}'\n",
    "s = '''multi\nline\n  string'''\nt = 1\n",
    "s = \"\"\"unterminated\nstring\n",
    "s = 'unterminated\nx = 2\n",
    "x = (1,\n     2,\n     3)\ny = [\n    a,\n    b,\n]\nz = {\n    'k': v,\n}\n",
    "x = (1,\n  2\ny = 3\ndef f():\n    pass\n",
    "foo(a,\n    b,\n",
    "x = [1, 2\n",
    "x = 1 + \\\n    2 + \\\n    3\ny = 4\n",
    "x = \\\n",
    "if x:\n    y = \\\n1\n",
    "\ufeffx = 1\n",
    "\ufeff",
    "\ufeffdef f():\n    pass\n",
    "x = 1\r\ny = 2\r\n",
    "x = 1\ry = 2\r",
    "def f():\r\n    return 1\r\n",
    "x = 1\n\x0cy = 2\n",
    "\x0c\ndef f():\n    pass\n\x0c\n",
    "def f():\n    pass\n\x0c    x = 1\n",
    "@dec\nasync def f(): return await -\nx = 1\ny = 2\n",
    "class A:\n    @dec\n    async def f(self): x = (\n    def g(self): bar.-\nz = 3\n",
    "@a\n@b\nasync def g(): bar.-\n\ndef h(): return 1\n",
    "class A:\r    def f(self):\r        x = (1,\r    def g(self):\r        pass\rz = 1\r",
    "def f():\r    y = [a,\rclass B:\r    pass\rw = 2\r",
    "if x:\r    foo(a,\r    def g(): pass\r    b = 1\rc = 2\r",
    "class Page:\n    def first(self):\n        return 1\n   \x0cdef second(self):\n        return 2\n",
    "class Page:\n    def first(self):\n        return 1\n\x0c    def second(self):\n        return 2\nx = 1\n",
    "def a():\n    if x:\n        y\n \x0c  z = 1\n    w = 2\n",
    "if x:\n    a\n\x0c\x0celse:\n    b\nc\n",
    "def f():\n    x\n  \x0c\n    y\n\x0c\n\x0cdef g():\n    z\n",
    "x = 1",
    "def f():\n    pass",
    "def f():\n    x = 1\n    ",
    "class X:\n    pass\n  ",
    "# only a comment",
    "# comment\n",
    "\n\n\n",
    "",
    "   ",
    "    x = 1\n",
    "  x = 1\n    y = 2\n z = 3\n",
    "def f():\n        x\n    y\n  z\na\n",
    "if 1:\n\tx = 1\n        y = 2\n",
    "def f():\n\tif x:\n\t\treturn 1\n\treturn 2\n",
    "def f():\n    x = 1\n  y = 2\n    z = 3\n",
    "class A:\n    def f(self):\n        return 1\n   def g(self):\n        return 2\n",
    "if x:\nelse:\n    pass\n",
    "def f(:\n    pass\n",
    "def f()\n    pass\n",
    "class :\n    x = 1\n",
    "def\ndef g():\n    pass\n",
    "x = = 1\ny = 2\n",
    "x = )\ny = (\n",
    "a = 1 +\nb = 2\n",
    "else:\n    pass\n",
    "return 1\nyield 2\n",
    "global x\nnonlocal y\n",
    "def f():\n    global x\n    x = 1\n    def g():\n        nonlocal y\n",
    "lambda x, *y, **z: (x, y, z)\n",
    "x = [i for i in range(10) if i % 2 for j in i]\ny = {k: v for k, v in z}\nw = {a for a in b}\n",
    "print(x := 3)\nif (n := len(a)) > 1:\n    pass\n",
    "def f(a, /, b, *, c):\n    pass\n",
    "async = 1\nawait = 2\n",
    "def f():\n    async = 1\n    await x\n",
    "match x:\n    case 1:\n        pass\n    case [a, b]:\n        pass\n    case _:\n        pass\n",
    "match = 1\ncase = 2\nmatch(case)\n",
    "try:\n    pass\nexcept* E:\n    pass\n",
    "type X = int\ntype Y[T] = list[T]\n",
    "def f[T](x: T) -> T:\n    return x\n",
    "class A[T]:\n    pass\n",
    "x: int = 3\ny: List[int]\n",
    "print 'hello'\nexec 'x'\n",
    "x = 0777\ny = 0o777\nz = 1_000\nw = 1__0\n",
    "x = 1if 2else 3\n",
    "x = `a`\ny = a <> b\n",
    "x = b'bytes' rb'raw' u'uni' br'x'\n",
    "x = 1j + 1.5e10 - .5 + 0x1f + 0b10\n",
    "a, *b = c\n*a, = b\n",
    "x = yield\ny = yield from z\n",
    "del a, b[0], c.d\nassert x, 'msg'\nraise X from Y\n",
    "from . import a\nfrom .. import b\nfrom .c import (d,\n    e)\nimport f.g as h\n",
    "from __future__ import annotations\n",
    "x = a if b else c\ny = not a and b or c\nz = a < b <= c != d\n",
    "x = a @ b\nx @= c\ny = a ** -b\nz = ~a >> 2\n",
    "x[1:2, ::3]\nx[...]\nx[a:b:c]\n",
    "f(*a, **b)\nf(x=1, *a)\nf(a)(b)(c)\n",
    "class A: pass\ndef f(): pass\nif x: pass\n",
    "def f(): x = 1; y = 2\nz = 3; w = 4;\n",
    "if x: y = 1; z = 2\nelse: w = 3\n",
    "\"\"\"module docstring\"\"\"\n\nimport os\n",
    "def f():\n    \"\"\"doc\"\"\"\n    # comment\n\n    # another\n    return 1\n    # trailing\n# dedented comment\nx = 1\n",
    "if a:\n    if b:\n        if c:\n            if d:\n                x = 1\n            y = 2\n        z = 3\n    w = 4\nv = 5\n",
    "def f():\n    def g():\n        def h():\n            return 1\n        return h\n    return g\n",
    "class A:\n    class B:\n        class C:\n            x = 1\n",
    "x = {\n  'a': [\n    (1,\n     2),\n  ],\n}\n",
    "x = '\\\n'\ny = 'a\\\nb'\n",
    "x = 1 # comment \\\ny = 2\n",
    "\xe4\xf6\xfc = 1\n\u540d\u524d = '\u5024'\n",
    "x = '\U0001F600'\n\U0001F600 = 1\n",
    "x = $\ny = ?\nz = !\n",
    "x = 1\x00\ny = 2\n",
    "\x01\x02\n",
    "def f(a=(1,\n        2), b=[\n        3]):\n    pass\n",
    "@\ndef f(): pass\n",
    "@a.b.c\n\ndef f(): pass\n",
    "for x in y: pass\nelse: pass\n",
    "with a: pass\nwhile b: pass\n",
    "try: pass\nexcept: pass\n",
    "if True:\n    def f():\n        pass\n    class A:\n        pass\nelse:\n    def f():\n        pass\n",
]

_FILES = None
_FAILING = None


def files():
    """[(name, text)] of the real-world files shipped with the harness."""
    global _FILES
    if _FILES is None:
        d = os.path.join(CORPUS, 'files')
        out = []
        for name in sorted(os.listdir(d)):
            if name.endswith('.py'):
                with open(os.path.join(d, name), 'rb') as f:
                    out.append((name, f.read().decode('utf-8', 'replace')))
        _FILES = out
    return _FILES


def failing():
    global _FAILING
    if _FAILING is None:
        with open(os.path.join(CORPUS, 'failing_examples.json')) as f:
            _FAILING = [x + '\n' for x in json.load(f)]
    return _FAILING


def splitlines(text):
    """Keep-ends split on \\n only (good enough for edit operators)."""
    out = text.split('\n')
    res = [x + '\n' for x in out[:-1]]
    if out[-1]:
        res.append(out[-1])
    return res


def window(rng, max_lines):
    name, text = rng.choice(files())
    lines = splitlines(text)
    n = rng.randint(1, max(1, min(max_lines, len(lines))))
    start = rng.randint(0, max(0, len(lines) - n))
    return ''.join(lines[start:start + n])


def restyle(text, nl):
    """The same text with another line ending (only texts that use plain \\n throughout)."""
    if nl == '\n' or '\r' in text:
        return text
    return text.replace('\n', nl)


def base_text(rng, max_lines=40):
    if rng.random() < 0.12:
        return restyle(_base_text(rng, max_lines), rng.choice(['\r', '\r\n']))
    return _base_text(rng, max_lines)


def _base_text(rng, max_lines=40):
    r = rng.random()
    if r < 0.03:
        return outlier_text(rng)
    if r < 0.35:
        return rng.choice(SNIPPETS)
    if r < 0.55:
        k = rng.randint(2, 5)
        return ''.join(rng.choice(SNIPPETS) for _ in range(k))
    if r < 0.62:
        return rng.choice(failing())
    if r < 0.68:
        return gen_block(rng, rng.randint(3, max_lines))
    if r < 0.85:
        return gen_program(rng, rng.randint(3, max_lines))
    return window(rng, max_lines)


_HEADS = ['def f%d(a, b):', 'class C%d:', 'if x%d:', 'for i in y%d:', 'while z%d:',
          'try:', 'with w%d as v:', 'async def g%d():', 'elif e%d:', 'else:',
          'except E%d:', 'finally:', '@dec%d', 'match m%d:', 'case %d:']
_STMTS = ['x%d = 1', 'return x%d', 'pass', 'foo(%d)', 'yield %d', 'import m%d',
          'x = (%d,', ')', '"""doc %d', '"""', '# c%d', '', 'global g%d',
          "s = f'{a%d}'", 'lambda: %d', 'x = [', ']', 'await a%d', 'break', 'continue',
          'raise E%d', 'del d%d', 'x = \\', 'assert a%d']


def gen_block(rng, n):
    """Adversarial block structure: random heads/statements at drifting indentation."""
    out = []
    ind = 0
    for _ in range(n):
        r = rng.random()
        if r < 0.25:
            ind = max(0, ind - rng.choice([1, 1, 2, 3]))
        elif r < 0.3:
            ind += 1
        width = rng.choice([4, 4, 4, 2, 1, 8, 3])
        pad = '\t' * ind if rng.random() < 0.04 else ' ' * (width * ind)
        if rng.random() < 0.35:
            t = rng.choice(_HEADS)
            line = pad + (t % rng.randrange(9) if '%d' in t else t)
            if not t.startswith('@'):
                ind += 1
        else:
            t = rng.choice(_STMTS)
            line = pad + (t % rng.randrange(9) if '%d' in t else t)
        out.append(line + '\n')
    return ''.join(out)


FRAGMENTS = ['def ', 'class ', 'if ', 'else', 'elif ', 'for ', 'while ', 'try', 'except ', 'finally',
             'with ', 'async ', 'await ', 'return ', 'yield ', 'lambda ', 'import ', 'from ', 'as ',
             'in ', 'is ', 'not ', 'and ', 'or ', 'pass', 'break', 'continue', 'global ', 'nonlocal ',
             'del ', 'raise ', 'assert ', 'None', 'True', 'match ', 'case ', 'type ',
             ' ', '\t', '\n', '\r', '\x0c', 'f"', 'F"""', "fr'", "RF'''", '"', '"""', "'", "'''",
             ';', ' some_random_word ', '\\', '#', '(', ')', '[', ']', '{', '}', ':', ',', '.',
             '=', '==', ':=', '->', '@', '*', '**', '...', '\\\n', '\ufeff', '0', '1.', 'x', '$', '?', '!',
             '\r\n', '{', '}}', '{{', '!r', ':>']


def random_fragment(rng):
    s = ''
    for _ in range(rng.randint(1, 3)):
        if rng.random() > 0.8:
            hi = 0x1f if rng.randint(0, 1) else 0x3000
            s += chr(rng.randint(0, hi))
        else:
            s += rng.choice(FRAGMENTS)
    return s


def edit(rng, text, history=()):
    """One seeded edit of `text` (1-4 elementary changes)."""
    lines = splitlines(text)
    for _ in range(rng.choice([1, 1, 1, 2, 2, 3, 4])):
        lines = _edit_once(rng, lines, history)
    return ''.join(lines)


def _edit_once(rng, lines, history):
    lines = list(lines)
    n = len(lines)
    r = rng.random()
    if n == 0:
        return splitlines(base_text(rng, 8))
    i = rng.randrange(n)
    if r < 0.14:                                    # delete 1..k lines
        k = rng.choice([1, 1, 1, 2, 3, 6])
        del lines[i:i + k]
    elif r < 0.24:                                  # duplicate a line / block elsewhere
        k = rng.choice([1, 1, 2, 4])
        j = rng.randint(0, n)
        lines[j:j] = lines[i:i + k]
    elif r < 0.36:                                  # insert corpus lines
        ins = splitlines(base_text(rng, 6))
        if ins and rng.random() < 0.5:              # at the indentation of the neighbour
            ref = lines[i]
            pad = ref[:len(ref) - len(ref.lstrip(' \t'))]
            ins = [pad + x for x in ins]
        j = rng.randint(0, n)
        lines[j:j] = ins
    elif r < 0.48:                                  # re-indent a range
        k = rng.choice([1, 1, 2, 3, 5, 10])
        d = rng.choice([-8, -4, -4, -2, -1, 1, 2, 4, 4, 8])
        for j in range(i, min(n, i + k)):
            ln = lines[j]
            if d > 0:
                lines[j] = ' ' * d + ln
            else:
                cut = 0
                while cut < -d and cut < len(ln) and ln[cut] in ' \t':
                    cut += 1
                lines[j] = ln[cut:]
    elif r < 0.72:                                  # in-line insertion
        ln = lines[i]
        col = rng.randint(0, len(ln))
        lines[i:i + 1] = splitlines(ln[:col] + random_fragment(rng) + ln[col:])
    elif r < 0.80:                                  # replace the line with an indented fragment
        lines[i:i + 1] = splitlines(' ' * rng.randint(0, 12) + random_fragment(rng) + '\n')
    elif r < 0.86:                                  # delete a span inside the line
        ln = lines[i]
        if ln:
            a = rng.randrange(len(ln))
            b = min(len(ln), a + rng.choice([1, 1, 2, 5, 20]))
            lines[i:i + 1] = splitlines(ln[:a] + ln[b:])
    elif r < 0.90:                                  # toggle final newline / BOM / line ending
        c = rng.randrange(4)
        if c == 0 and lines[-1].endswith('\n'):
            lines[-1] = lines[-1][:-1]
        elif c == 1:
            lines[-1] = lines[-1] + '\n'
        elif c == 2:
            if lines[0].startswith('\ufeff'):
                lines[0] = lines[0][1:]
            else:
                lines[0] = '\ufeff' + lines[0]
        else:
            ln = lines[i]
            if ln.endswith('\n') and not ln.endswith('\r\n'):
                lines[i:i + 1] = splitlines(ln[:-1] + rng.choice(['\r\n', '\r']))
    elif r < 0.95 and history:                      # undo: go back to an earlier text
        return splitlines(rng.choice(list(history)))
    else:                                           # swap two lines
        j = rng.randrange(n)
        lines[i], lines[j] = lines[j], lines[i]
    return lines


# ---------------------------------------------------------------------------
# structured programs: mostly valid, block-structured code (where the diff parser copies most)
# ---------------------------------------------------------------------------
_SIMPLE = ['x%d = %d', 'return x%d', 'pass', 'foo(%d, y)', 'yield x%d', 'import mod%d', 'log(rows%d)',
           'rows = await db.fetch(%d)', 'self.a%d = b', 'assert x%d, "m"', 'del d%d', 'raise E%d()',
           'x = [%d,\n%s    2]', "s = f'{a%d}'", "s = \'\'\'doc %d\n%s  text\'\'\'", '# comment %d',
           'x: int = %d', 'a, b = b, a  # %d', 'print(x%d)', 'continue', 'break', 'global g%d',
           'x = (y%d\n%s     + z)', 'lambda: %d']


def _simple(rng, pad):
    t = rng.choice(_SIMPLE)
    n = rng.randrange(10)
    if '%s' in t:
        return pad + (t % (n, pad)) + '\n'
    if t.count('%d') == 2:
        return pad + (t % (n, rng.randrange(10))) + '\n'
    if '%d' in t:
        return pad + (t % n) + '\n'
    return pad + t + '\n'


def gen_program(rng, budget=30, width=4):
    """Well-formed nested program; returns text.  Form-feed page breaks and decorators included."""
    out = []

    def body(ind, depth, in_async):
        n = rng.randint(1, 4)
        for _ in range(n):
            if len(out) >= budget:
                break
            item(ind, depth, in_async)
        if not out or not out[-1].startswith(' ' * (ind * width)) or not out[-1].strip():
            out.append(' ' * (ind * width) + 'pass\n')

    def item(ind, depth, in_async):
        pad = ' ' * (ind * width)
        r = rng.random()
        if depth >= 3 or r < 0.45:
            out.append(_simple(rng, pad))
            return
        kind = rng.choice(['def', 'def', 'adef', 'adef', 'class', 'if', 'for', 'while', 'try', 'with', 'ifelse'])
        if kind in ('def', 'adef', 'class'):
            for _ in range(rng.choice([0, 0, 1, 1, 2])):
                out.append(pad + rng.choice(['@dec%d', '@mod.dec(%d)', '@property  # %d', '@staticmethod  # %d'])
                           % rng.randrange(9) + '\n')
        n = rng.randrange(10)
        if kind == 'def':
            out.append(pad + 'def f%d(self, a=%d):\n' % (n, n))
            body(ind + 1, depth + 1, False)
        elif kind == 'adef':
            out.append(pad + 'async def g%d(self):\n' % n)
            body(ind + 1, depth + 1, True)
        elif kind == 'class':
            out.append(pad + 'class C%d(Base):\n' % n)
            body(ind + 1, depth + 1, False)
        elif kind == 'if':
            out.append(pad + 'if x%d:\n' % n)
            body(ind + 1, depth + 1, in_async)
        elif kind == 'ifelse':
            out.append(pad + 'if x%d:\n' % n)
            body(ind + 1, depth + 1, in_async)
            out.append(pad + rng.choice(['else:\n', 'elif y%d:\n' % n]))
            body(ind + 1, depth + 1, in_async)
        elif kind == 'for':
            out.append(pad + ('async ' if in_async and rng.random() < 0.5 else '') + 'for i in range(%d):\n' % n)
            body(ind + 1, depth + 1, in_async)
        elif kind == 'while':
            out.append(pad + 'while x%d:\n' % n)
            body(ind + 1, depth + 1, in_async)
        elif kind == 'try':
            out.append(pad + 'try:\n')
            body(ind + 1, depth + 1, in_async)
            out.append(pad + rng.choice(['except E%d as e:\n' % n, 'finally:\n', 'except:\n']))
            body(ind + 1, depth + 1, in_async)
        elif kind == 'with':
            out.append(pad + ('async ' if in_async and rng.random() < 0.5 else '') + 'with open(f%d) as f:\n' % n)
            body(ind + 1, depth + 1, in_async)
        if ind == 0 and rng.random() < 0.5:
            out.append(rng.choice(['\n', '\n\n', '\x0c\n', '\n# section\n']))

    while len(out) < budget:
        item(0, 0, False)
        if rng.random() < 0.25:
            break
    return ''.join(out)


def edit_structured(rng, text, history=()):
    """Local, mostly syntax-preserving edits (append to a body, insert a block, rename, blank lines...)."""
    lines = splitlines(text)
    for _ in range(rng.choice([1, 1, 1, 2, 3])):
        n = len(lines)
        if n == 0:
            return gen_program(rng, 8)
        i = rng.randrange(n)
        ln = lines[i]
        pad = ln[:len(ln) - len(ln.lstrip(' \t\x0c'))]
        r = rng.random()
        if r < 0.22:                                   # append a statement after line i at its indentation
            lines[i + 1:i + 1] = splitlines(_simple(rng, pad))
        elif r < 0.30:                                 # ... one level deeper / shallower
            d = rng.choice(['    ', '  ', ''])
            newpad = pad + d if rng.random() < 0.5 else pad[:-4]
            lines[i + 1:i + 1] = splitlines(_simple(rng, newpad))
        elif r < 0.40:                                 # insert a whole block at this indentation
            blk = splitlines(gen_program(rng, rng.randint(2, 6)))
            lines[i + 1:i + 1] = [pad + x if x.strip() else x for x in blk]
        elif r < 0.52:                                 # delete the line (or a few)
            del lines[i:i + rng.choice([1, 1, 1, 2, 3])]
        elif r < 0.62:                                 # blank line / comment line / page break
            lines[i:i] = [rng.choice(['\n', '\n', pad + '\n', pad + '# c\n', '\x0c\n', '    \n'])]
        elif r < 0.72:                                 # change one digit / identifier character
            if ln.strip():
                cols = [k for k, ch in enumerate(ln) if ch.isalnum()]
                if cols:
                    k = rng.choice(cols)
                    lines[i] = ln[:k] + rng.choice('0123456789xyz_') + ln[k + 1:]
        elif r < 0.80:                                 # whitespace of the indentation: form feed, tab, +-1 blank
            if pad:
                k = rng.randrange(len(pad))
                c = rng.random()
                if c < 0.4:
                    newpad = pad[:k] + '\x0c' + pad[k + 1:]
                elif c < 0.55:
                    newpad = pad[:k] + '\t' + pad[k + 1:]
                elif c < 0.8:
                    newpad = pad[:-1]
                else:
                    newpad = pad + ' '
                lines[i] = newpad + ln[len(pad):]
            else:
                lines[i] = rng.choice([' ', '\x0c', '\t']) + ln
        elif r < 0.86:                                 # move a line
            j = rng.randrange(n)
            x = lines.pop(i)
            lines.insert(min(j, len(lines)), x)
        elif r < 0.92 and history:                     # undo
            lines = splitlines(rng.choice(list(history)))
        else:                                          # fall back to the rough operators
            lines = _edit_once(rng, lines, history)
    return ''.join(lines)


# ---------------------------------------------------------------------------
# elementary single-line edits (systematic sweeps over snippet x line x edit)
# ---------------------------------------------------------------------------
ELEMENTARY = ['header-to-stmt', 'stray-dec', 'stmt-to-header', 'strip-backslash', 'add-backslash', 'blank-before', 'delete', 'duplicate', 'indent4', 'dedent4', 'ff-start', 'append-stmt', 'comment-out',
              'indent1', 'join-next', 'ff-line-before', 'split']


def splitlines_cr(text):
    """Keep-ends split on \\r\\n, \\n and a bare \\r (the line breaks Python and parso know)."""
    import re
    parts = re.split(r'(\r\n|\n|\r)', text)
    out = []
    for j in range(0, len(parts) - 1, 2):
        out.append(parts[j] + parts[j + 1])
    if parts[-1]:
        out.append(parts[-1])
    return out


def elementary(text, i, kind):
    lines = splitlines_cr(text)
    if not lines:
        return 'x = 1\n'
    i %= len(lines)
    ln = lines[i]
    pad = ln[:len(ln) - len(ln.lstrip(' \t\x0c'))]
    nl = '\r\n' if ln.endswith('\r\n') else ('\r' if ln.endswith('\r') else '\n')
    if nl != '\n':
        # edits in a CR / CRLF file use that file's line ending
        return _elementary_nl(lines, i, kind, pad, nl)
    if kind in ('header-to-stmt', 'stray-dec', 'stmt-to-header'):
        return _elementary_nl(lines, i, kind, pad, '\n' if ln.endswith('\n') else '')
    if kind == 'strip-backslash':
        body = ln[:-1] if ln.endswith('\n') else ln
        lines[i] = (body.rstrip(' \t')[:-1].rstrip(' ') if body.rstrip(' \t').endswith('\\') else body + ' #') + ('\n' if ln.endswith('\n') else '')
    elif kind == 'add-backslash':
        body = ln[:-1] if ln.endswith('\n') else ln
        lines[i] = body + ' \\' + ('\n' if ln.endswith('\n') else '')
    elif kind == 'blank-before':
        lines[i:i] = ['\n']
    elif kind == 'delete':
        del lines[i]
    elif kind == 'duplicate':
        lines[i:i] = [ln if ln.endswith('\n') else ln + '\n']
    elif kind == 'indent4':
        lines[i] = '    ' + ln
    elif kind == 'indent1':
        lines[i] = ' ' + ln
    elif kind == 'dedent4':
        lines[i] = ln[min(4, len(pad)):]
    elif kind == 'ff-start':
        lines[i] = (pad[:-1] + '\x0c' if pad else '\x0c') + ln[len(pad):]
    elif kind == 'append-stmt':
        lines[i + 1:i + 1] = [pad + 'new_name = 1\n']
        if not ln.endswith('\n'):
            lines[i] = ln + '\n'
    elif kind == 'comment-out':
        lines[i] = pad + '# ' + ln[len(pad):]
    elif kind == 'join-next':
        if ln.endswith('\n'):
            lines[i] = ln[:-1] + ' '
    elif kind == 'ff-line-before':
        lines[i:i] = ['\x0c\n']
    elif kind == 'split':
        k = len(ln) // 2
        lines[i:i + 1] = [ln[:k] + '\n', ln[k:]]
    return ''.join(lines)


def _elementary_nl(lines, i, kind, pad, nl):
    ln = lines[i]
    body = ln[:-len(nl)] if nl else ln
    if kind == 'header-to-stmt':
        # a block header becomes an ordinary statement of the same indentation: the lines of its block
        # join the enclosing (or preceding) block without moving
        lines[i] = pad + ('moved = 1' if body.rstrip().endswith(':') else 'def h%d():' % i) + nl
    elif kind == 'stmt-to-header':
        lines[i] = pad + ('if c%d:' % i if not body.rstrip().endswith(':') else 'y%d = 2' % i) + nl
    elif kind == 'stray-dec':
        lines[i:i] = ['@dec' + (nl or '\n')]           # at column 0, wherever the line is
    elif kind == 'strip-backslash':
        lines[i] = (body.rstrip(' \t')[:-1].rstrip(' ') if body.rstrip(' \t').endswith('\\') else body + ' #') + nl
    elif kind == 'add-backslash':
        lines[i] = body + ' \\' + nl
    elif kind == 'blank-before':
        lines[i:i] = [nl]
    elif kind == 'delete':
        del lines[i]
    elif kind == 'duplicate':
        lines[i:i] = [ln]
    elif kind == 'indent4':
        lines[i] = '    ' + ln
    elif kind == 'indent1':
        lines[i] = ' ' + ln
    elif kind == 'dedent4':
        lines[i] = ln[min(4, len(pad)):]
    elif kind == 'ff-start':
        lines[i] = (pad[:-1] + '\x0c' if pad else '\x0c') + ln[len(pad):]
    elif kind == 'append-stmt':
        lines[i + 1:i + 1] = [pad + 'new_name = 1' + nl]
    elif kind == 'comment-out':
        lines[i] = pad + '# ' + ln[len(pad):]
    elif kind == 'join-next':
        lines[i] = body + ' '
    elif kind == 'ff-line-before':
        lines[i:i] = ['\x0c' + nl]
    elif kind == 'split':
        k = len(body) // 2
        lines[i:i + 1] = [body[:k] + nl, body[k:] + nl]
    return ''.join(lines)


def outlier_text(rng):
    """Legitimate but unusual sizes: very long lines, deep nesting, many lines, huge literals."""
    k = rng.randrange(7)
    if k == 0:
        n = rng.choice([300, 1000, 5000])
        return "x = '" + 'a' * n + "'\ny = 1\n" + 'z = ' + ' + '.join('v%d' % i for i in range(rng.choice([50, 400]))) + '\n'
    if k == 1:
        d = rng.choice([12, 60, 150])
        out = []
        for i in range(d):
            out.append('    ' * i + rng.choice(['if x%d:', 'for i%d in y:', 'while z%d:', 'with w%d:', 'def f%d():', 'class C%d:']) % i + '\n')
        out.append('    ' * d + 'pass\n')
        for i in range(d - 1, -1, -rng.choice([1, 3, 7])):
            out.append('    ' * i + 'x%d = %d\n' % (i, i))
        return ''.join(out)
    if k == 2:
        d = rng.choice([20, 150, 300, 450, 700])
        return 'x = ' + '(' * d + '1' + ')' * d + '\ny = ' + '[' * d + ']' * d + '\nz = 2\n'
    if k == 3:
        n = rng.choice([300, 1000, 2500])
        return ''.join('v%d = %d\n' % (i, i) if i % 17 else 'def f%d():\n    return %d\n' % (i, i) for i in range(n))
    if k == 4:
        n = rng.choice([100, 1000])
        return 'data = [\n' + ''.join('    %d,\n' % i for i in range(n)) + ']\nprint(data)\n'
    if k == 5:
        n = rng.choice([50, 300])
        return 's = """' + ''.join('line %d\n' % i for i in range(n)) + '"""\nt = f"""' + ''.join('{a%d}\n' % i for i in range(n // 5)) + '"""\nu = 1\n'
    n = rng.choice([40, 200])
    return ''.join('@dec%d\n' % i for i in range(n)) + 'def f():\n' + ''.join('    # comment %d\n' % i for i in range(n)) + '    pass\n'
