"""Detect writes to parso's process-wide state while one call runs (C18, directed schedules).

The tracker walks everything reachable from parso's module globals, class dictionaries, function
defaults and closures (the same graph the state fingerprint digests) and remembers every mutable
container in it: dicts (module / class / instance dictionaries included), lists and sets.  A dict is
watched through CPython's per-dict version tag (`ma_version_tag`, bumped by every modification, also
by one that stores an equal value or is undone later), lists and sets by (length, element identities).
`probe(step, frame)` is called by the scheduler at every traced line: containers outside the
generated parser tables are compared at every line, the (thousands of) table dictionaries every
COARSE lines.  A difference is a *write event* (step, label, function, line); the tracker then
re-collects (new objects may have become reachable) and goes on.

Write events are not violations: first-use memoisation is allowed and a transient write that is
undone before the call returns leaves shared state unchanged.  They tell the scheduler *where* a second
thread has to run for an interleaving to matter (threadsim.make_scan_plan / directed attempts).
"""
import ctypes
import enum
import gc
import re
import sys
import types
import warnings

COARSE = 64
SPARSE_AFTER = 60000
SPARSE = 8
MAX_EVENTS = 400
_U64 = ctypes.c_uint64
# PyDictObject: ob_refcnt, ob_type, ma_used, ma_version_tag
_VT_OFFSET = 24


def version_tags_work():
    d = {}
    a = _U64.from_address(id(d) + _VT_OFFSET).value
    d['x'] = 1
    b = _U64.from_address(id(d) + _VT_OFFSET).value
    d['x'] = 1
    c = _U64.from_address(id(d) + _VT_OFFSET).value
    del d['x']
    e = _U64.from_address(id(d) + _VT_OFFSET).value
    return len({a, b, e}) == 3 and c >= b


def _is_parso_class(cls):
    return getattr(cls, '__module__', '').split('.')[0] == 'parso'


def collect():
    """[(label, container, kind)] in a deterministic order; kind in dict | list | set."""
    seen = set()
    cells = []
    stack = []
    for n, mod in sorted(sys.modules.items(), reverse=True):
        if (n == 'parso' or n.startswith('parso.')) and mod is not None:
            stack.append((n, mod))
    push = stack.append
    while stack:
        label, o = stack.pop()
        t = type(o)
        if o is None or t in (bool, int, float, str, bytes, complex):
            continue
        i = id(o)
        if i in seen:
            continue
        if isinstance(o, (enum.Enum, re.Pattern)):
            continue
        seen.add(i)
        if t is types.ModuleType:
            if not o.__name__.startswith('parso'):
                continue
            d = vars(o)
            seen.add(id(d))
            cells.append((label, d, 'dict'))
            for k in sorted(d, reverse=True):
                if not k.startswith('__'):
                    push((label + '.' + k, d[k]))
        elif isinstance(o, type):
            if not _is_parso_class(o):
                continue
            d = gc.get_referents(o.__dict__)[0]
            if type(d) is dict:
                seen.add(id(d))
                cells.append((label, d, 'dict'))
            for k in sorted(vars(o), reverse=True):
                if k.startswith('__') and k != '__slots__':
                    continue
                push((label + '.' + k, vars(o)[k]))
        elif isinstance(o, (types.FunctionType, types.MethodType, staticmethod, classmethod, property)):
            f = getattr(o, '__func__', None) or getattr(o, 'fget', None) or o
            if isinstance(f, types.FunctionType) and (f.__module__ or '').startswith('parso'):
                if id(f) in seen and f is not o:
                    continue
                seen.add(id(f))
                if f.__defaults__:
                    push((label + '.__defaults__', f.__defaults__))
                if f.__kwdefaults__:
                    push((label + '.__kwdefaults__', f.__kwdefaults__))
                if f.__closure__:
                    for n, c in enumerate(f.__closure__):
                        try:
                            push((label + '.<closure %d>' % n, c.cell_contents))
                        except ValueError:
                            pass
        elif isinstance(o, dict):
            cells.append((label, o, 'dict'))
            try:
                keys = sorted(o, key=repr, reverse=True) if len(o) < 64 else list(o)
            except Exception:
                keys = list(o)
            for k in keys:
                push((label + '[%s]' % (repr(k)[:40] if isinstance(k, (str, int, tuple)) else type(k).__name__), o[k]))
                if not isinstance(k, (str, int)):
                    push((label + '<key>', k))
        elif t is list:
            cells.append((label, o, 'list'))
            for x in reversed(o):
                push((label + '[]', x))
        elif t is set:
            cells.append((label, o, 'set'))
            for x in o:
                push((label + '{}', x))
        elif t in (tuple, frozenset):
            for x in o:
                push((label + '()', x))
        elif _is_parso_class(t):
            if hasattr(o, '__dict__'):
                d = vars(o)
                seen.add(id(d))
                cells.append((label, d, 'dict'))
                for k in sorted(d, reverse=True):
                    push((label + '.' + k, d[k]))
            for c in t.__mro__:
                for s in getattr(c, '__slots__', ()):
                    if isinstance(s, str) and hasattr(o, s):
                        push((label + '.' + s, getattr(o, s)))
            if isinstance(o, tuple):
                for x in o:
                    push((label + '()', x))
    return cells


USE_TAGS = version_tags_work()


def _ident(o):
    if isinstance(o, dict):
        return (len(o), tuple(map(id, o)), tuple(map(id, o.values())))
    return (len(o), tuple(map(id, o)))


class WriteTracker:
    def __init__(self):
        self.events = []
        self.n_cells = 0
        self._collect()

    def _collect(self):
        cells = collect()
        self.keep = cells                     # watched objects must stay alive: their addresses are read
        self.n_cells = len(cells)
        dense = [c for c in cells if '_pgen_grammar' not in c[0]]
        coarse = [c for c in cells if '_pgen_grammar' in c[0]]
        tagged = (lambda k: k == 'dict') if USE_TAGS else (lambda k: False)
        self.d_addr = [id(o) + _VT_OFFSET for _, o, k in dense if tagged(k)]
        self.d_lab = [lab for lab, o, k in dense if tagged(k)]
        self.o_objs = [o for _, o, k in dense if not tagged(k)]
        self.o_lab = [lab for lab, o, k in dense if not tagged(k)]
        self.c_addr = [id(o) + _VT_OFFSET for _, o, k in coarse if tagged(k)]
        self.c_lab = [lab for lab, o, k in coarse if tagged(k)]
        self.c_objs = [o for _, o, k in coarse if not tagged(k)]
        self.c_olab = [lab for lab, o, k in coarse if not tagged(k)]
        self.s_dense = self._snap_dense()
        self.s_coarse = self._snap_coarse()
        self.s_interp = self._interp()

    def _snap_dense(self):
        fa = _U64.from_address
        return [fa(a).value for a in self.d_addr], [_ident(o) for o in self.o_objs]

    def _snap_coarse(self):
        fa = _U64.from_address
        return [fa(a).value for a in self.c_addr], [len(o) for o in self.c_objs]

    @staticmethod
    def _interp():
        # process-wide interpreter settings are shared state too (not reachable from parso's modules)
        return (sys.getrecursionlimit(), gc.isenabled(), len(warnings.filters), sys.getswitchinterval(), gc.get_threshold())

    def probe(self, step, frame):
        changed = None
        i = self._interp()
        if i != self.s_interp:
            changed = ['<interpreter> (recursion limit, gc, warnings filters, switch interval, gc thresholds) %r -> %r' % (self.s_interp, i)]
            self.s_interp = i
        elif step > SPARSE_AFTER and step % SPARSE:
            return                           # very long calls: containers every SPARSE lines only
        s = self._snap_dense()
        if s != self.s_dense:
            changed = (changed or []) + [self.d_lab[i] for i, (a, b) in enumerate(zip(s[0], self.s_dense[0])) if a != b]
            changed += [self.o_lab[i] for i, (a, b) in enumerate(zip(s[1], self.s_dense[1])) if a != b]
        if step % COARSE == 0:
            c = self._snap_coarse()
            if c != self.s_coarse:
                changed = changed or []
                changed += [self.c_lab[i] + ' (within the last %d lines)' % COARSE
                            for i, (a, b) in enumerate(zip(c[0], self.s_coarse[0])) if a != b]
                changed += [self.c_olab[i] + ' (within the last %d lines)' % COARSE
                            for i, (a, b) in enumerate(zip(c[1], self.s_coarse[1])) if a != b]
        if changed is not None:
            if len(self.events) < MAX_EVENTS:
                code = frame.f_code
                for lab in sorted(set(changed))[:6]:
                    self.events.append((step, lab, code.co_name, frame.f_lineno))
            self._collect()
