"""The cache world: simulated processes sharing a simulated disk and clock.

One run = one *plan* (see plan.py / gen_*.py).  Execution never draws from a
PRNG: every run-time choice comes from the decision tape of the op that is
executing (in generate mode the tape is filled lazily from the op's own PRNG
and recorded, so that the recorded plan replays exactly).

Actors
  * simulated processes: real threads running unmodified parso code, parked at
    every seam step (SimFS call); exactly one holds the baton.  They share only
    the disk: `parso.cache.parser_cache` is swapped whenever the baton moves.
  * environment ops (editor, clock, janitor, corrupter, power loss ...): atomic,
    executed by the driver between two seam steps.

Oracle: reference model of file versions + "fresh non-caching parse".
"""
import errno
import hashlib
import logging
import os
import pickle
import random
import sys
import threading
import traceback
import warnings
from pathlib import Path

from . import simfs
from .simfs import ROOT, SimFS, HarnessError, Directive

import parso
import parso.cache as pc
import parso.python.diff as pdiff
from parso.utils import python_bytes_to_unicode

DAY = 86400.0
T0 = 1_700_000_000.0
SWITCH_TIMEOUT = 120
STEP_CAP = 4000

# decision codes (one tape entry per seam step; extra entries where noted)
D_NONE = 0
D_YIELD_LO, D_YIELD_HI = 1, 7        # hand the baton over, choice index d-1
D_CRASH_BEFORE = 10
D_CRASH_AFTER = 11
D_EIO, D_ENOSPC, D_EACCES, D_EMFILE, D_ENOENT = 12, 13, 14, 15, 16
D_TORN = 17                          # write only; next tape entry = fraction/256
D_MEMERR, D_INTR = 18, 19            # MemoryError / KeyboardInterrupt raised out of a cache file operation
ASYNC = {D_MEMERR: MemoryError, D_INTR: KeyboardInterrupt}
ONEOFF = {D_EIO: errno.EIO, D_ENOSPC: errno.ENOSPC, D_EACCES: errno.EACCES,
          D_EMFILE: errno.EMFILE, D_ENOENT: errno.ENOENT}
FAULT_NAMES = {D_CRASH_BEFORE: 'crash_before', D_CRASH_AFTER: 'crash_after', D_EIO: 'EIO',
               D_ENOSPC: 'ENOSPC', D_EACCES: 'EACCES', D_EMFILE: 'EMFILE', D_ENOENT: 'ENOENT',
               D_TORN: 'torn_write', D_MEMERR: 'MemoryError', D_INTR: 'KeyboardInterrupt'}


class SimCrash(BaseException):
    """The simulated process dies here."""


class StepCap(BaseException):
    """An op exceeded its seam-step budget (reported as a violation: livelock)."""


class _Clock:
    def __init__(self, world):
        self._w = world

    def time(self):
        return self._w.now

    def __getattr__(self, name):          # anything else parso.cache may want from `time`
        import time as _t
        if name in ('sleep', 'monotonic', 'perf_counter', 'time_ns', 'monotonic_ns'):
            raise HarnessError('parso.cache uses time.%s, which the simulated clock does not model' % name)
        return getattr(_t, name)


def encode_text(d):
    enc = d.get('enc', 'utf-8')
    return d['text'].encode(enc, 'surrogatepass' if enc == 'utf-8' else 'replace')


def _valid_item(obj):
    """Structurally valid cache item: what an implementation can check without a checksum
    (presence and basic types of the bookkeeping; the tree itself cannot be validated)."""
    try:
        obj.node
        return (isinstance(obj, pc._NodeCacheItem)
                and isinstance(obj.lines, list)
                and isinstance(obj.change_time, (int, float))
                and isinstance(obj.last_used, (int, float)))
    except Exception:
        return False


_VALID_CACHE = {}
_PENDING_POISON = []


def _data_valid(data):
    """_valid_item(unpickle(data)) memoised per bytes object (the pure-Python unpickler is slow)."""
    key = id(data)
    hit = _VALID_CACHE.get(key)
    if hit is not None and hit[0] is data:
        return hit[1]
    pending = poison_check()
    try:
        ok = _valid_item(_safe_loads(data))
    except BaseException:
        ok = False
    poison_check()                       # undo whatever the harness' own trial load did
    if pending:
        _PENDING_POISON.extend(pending)  # caused earlier by the code under test: reported at run end
    if len(_VALID_CACHE) > 512:
        _VALID_CACHE.clear()
    _VALID_CACHE[key] = (data, ok)
    return ok


class _LenientUnpickler(pickle._Unpickler):
    """Pure-Python unpickler that, like the C one, treats FRAME opcodes as prefetch hints only."""
    dispatch = dict(pickle._Unpickler.dispatch)

    def load_frame(self):
        self.read(8)

    dispatch[pickle.FRAME[0]] = load_frame


def _safe_loads(data):
    """Harness-side validity check: would *any* unpickler still produce an object from these bytes?
    First the (frame-lenient) pure-Python unpickler; only if that fails the C unpickler, which is
    what parso itself is about to run on the same bytes anyway (it prints SystemError noise on some
    garbage)."""
    import io
    try:
        return _LenientUnpickler(io.BytesIO(data)).load()
    except BaseException:
        return pickle.loads(data)


_GRAMMARS = {}


def grammar(version):
    """'3.10' -> the stock grammar; '3.10+c' -> a custom grammar of the same version (one nonterminal
    renamed, so that every tree with an assignment differs from the stock grammar's tree)."""
    g = _GRAMMARS.get(version)
    if g is None:
        if version.endswith('+c'):
            from parso.grammar import PythonGrammar
            from parso.utils import parse_version_string
            base = version[:-2]
            stock = parso.load_grammar(version=base)
            import os as _os
            path = _os.path.join(_os.path.dirname(parso.__file__), 'python',
                                 'grammar%s%s.txt' % (stock.version_info.major, stock.version_info.minor))
            with open(path) as f:
                text = f.read()
            text = text.replace('expr_stmt', 'expr_statement')
            g = PythonGrammar(parse_version_string(base), text)
        else:
            g = parso.load_grammar(version=version)
        _GRAMMARS[version] = g
    return g


# ---------------------------------------------------------------------------
# tree signatures (reference model side)
# ---------------------------------------------------------------------------
from .sig import tree_sig, tree_lines, code_of  # noqa: E402


def used_names_sig(module):
    try:
        un = module.get_used_names()
    except Exception as e:            # the reference raises the same way or it is a violation
        return ('exc', type(e).__name__)
    return ('ok', sorted((k, sorted(n.start_pos for n in v)) for k, v in un.items()))


_REF = {}


def ref_outcome(version, content):
    """Outcome of the non-caching parse of `content` (bytes, str or None=absent)."""
    key = (version, content)
    r = _REF.get(key)
    if r is None:
        if content is None:
            r = ('exc', 'FileNotFoundError', None, None)
        else:
            try:
                m = grammar(version).parse(content)
            except Exception as e:
                r = ('exc', type(e).__name__, None, None)
            else:
                r = ('ok', tree_sig(m)[0], code_of(m), used_names_sig(m))
        if len(_REF) > 4000:
            _REF.clear()
        _REF[key] = r
    return r


# ---------------------------------------------------------------------------
class CwLock:
    """Stand-in for a lock object of the cache modules while a world runs.  Simulated processes each
    have their own (a lock is process-local); simulated threads of one process share it: a blocking
    acquire of a lock held by another thread yields to that thread until it is free."""

    def __init__(self, world, reentrant):
        self.world = world
        self.reentrant = reentrant
        self.owners = {}                 # group -> [pid, count]

    def _group(self):
        return 'shared' if self.world.shared else self.world.cur

    def acquire(self, blocking=True, timeout=-1):
        w = self.world
        me = w.cur
        if me is None:
            return True
        g = self._group()
        while True:
            o = self.owners.get(g)
            if o is None or (self.reentrant and o[0] == me):
                self.owners[g] = [me, (o[1] if o else 0) + 1]
                return True
            if not blocking or timeout == 0:
                return False
            proc = w.procs[me]
            w.count('lock.blocked')
            if o[0] not in w.inflight:
                raise HarnessError('lock owner %r is not a paused process' % (o[0],))
            w._to_driver(proc, ('yield', ('resume', o[0])))
            if proc.dead:
                raise SimCrash()

    __enter__ = acquire

    def release(self):
        g = self._group()
        o = self.owners.get(g)
        if o is None:
            raise RuntimeError('release unlocked lock')
        o[1] -= 1
        if o[1] <= 0:
            del self.owners[g]

    def __exit__(self, *a):
        self.release()

    def locked(self):
        return self._group() in self.owners


def _install_cw_locks(world):
    import _thread
    import parso.file_io as pfio
    import parso.grammar as pgr
    found = []
    for mod in (pc, pfio, pgr, pdiff):
        for name, val in list(vars(mod).items()):
            if isinstance(val, (_thread.LockType, _thread.RLock)):
                found.append((mod, name, val))
                setattr(mod, name, CwLock(world, isinstance(val, _thread.RLock)))
    return found


class Violation(Exception):
    def __init__(self, clause, sig, detail, op_index=None):
        super().__init__(clause, sig, detail)
        self.clause = clause          # oracle clause
        self.sig = sig                # classification signature (stable under shrinking)
        self.detail = detail
        self.op_index = op_index

    def as_dict(self):
        return {'clause': self.clause, 'sig': self.sig, 'detail': self.detail, 'op_index': self.op_index}


class OpCtx:
    """Per-op bookkeeping (tape, model snapshot, observations)."""

    def __init__(self, world, index, op):
        self.world = world
        self.index = index
        self.op = op
        self.tape = op.setdefault('t', [])
        self.tpos = 0
        self.steps = 0
        self.rw_steps = 0
        self.touched_cache = None
        self.yielded = False
        self.cache_writes = []
        self.cap_factor = max(1, op.get('n', 1)) if op.get('k') == 'bulk' else 1
        self.injected = []            # exception instances injected into this op
        self.async_injected = False   # ... among them a MemoryError / KeyboardInterrupt
        self.observed_at = -1         # number of source reads when the observed pair was last recorded
        self.inflight = []            # [(content, mtime)] versions the file took while in flight
        self.start = None             # (content, mtime) at op start
        self.src_raws = []            # SimRaw objects this op opened on its source file
        self.pre_mtimes = []          # mtimes this op's own stat calls saw before it opened the source
        self.pkl_read = False
        self.pkl_written = False
        self.src_opened = False
        self.damaged_at_start = False
        self.enospc = False
        self.warnings = []
        self.diff_copy = 0
        self.diff_parse = 0
        self.rng = None

    def decide(self, chooser):
        """Next tape entry; in generate mode `chooser(rng)` fills it."""
        if self.tpos < len(self.tape):
            d = self.tape[self.tpos]
        elif self.world.generate:
            if self.rng is None:
                self.rng = random.Random(self.world.seed * 1000003 + self.index * 7919 + 17)
            d = chooser(self.rng)
            self.tape.append(d)
        else:
            d = 0
        self.tpos += 1
        return d


class Proc:
    def __init__(self, world, pid):
        self.world = world
        self.pid = pid
        self.sem = threading.Semaphore(0)
        self.state = None                # module-level state of the cache modules (None: pristine)
        self.fio = {}
        self.task = None
        self.ctx = None
        self.dead = False
        self.incarnation = 0
        self.result = None
        self.thread = threading.Thread(target=self._main, name='simproc-%d' % pid, daemon=True)
        self.thread.start()

    def _main(self):
        w = self.world
        while True:
            if not self.sem.acquire(timeout=SWITCH_TIMEOUT * 4):
                return
            task = self.task
            if task is None:
                return
            try:
                self.result = w._exec_proc_op(self, task)
            except (HarnessError, StepCap) as e:
                self.result = ('harness', e)
            except BaseException as e:      # must never kill the thread silently
                self.result = ('harness', e)
            w._to_driver(self, ('done',), wait=False)


class World:
    def __init__(self, plan, generate=False):
        self.plan = plan
        self.cfg = cfg = plan['config']
        self.seed = plan.get('seed', 0)
        self.generate = generate
        self.profile = plan['profile']
        self.now = T0
        self.tick = cfg.get('tick', 0.0)
        self.fs = SimFS(lambda: self.now, cfg.get('gran', 0.0), cfg.get('bufsize', 8192),
                        cfg.get('max_write', 0), cfg.get('max_read', 0))
        self.fs.hook = self.seam
        self.fs.on_enospc = self._on_enospc
        self.cur = None
        self.driver_sem = threading.Semaphore(0)
        self.msg = None
        self.procs = []
        self.inflight = []                 # pids paused mid-op (stack)
        self.events = []                   # event log (determinism digest, samples)
        self.counters = {}
        self.versions = {}                 # file index -> [(content|None, mtime)]
        self.violation = None
        self.files = [ROOT + '/' + f for f in cfg['files']]
        if len(set(self.files)) != len(self.files):
            raise HarnessError('the plan lists a source path twice: %r' % (cfg['files'],))
        self.cdirs = [Path(ROOT + '/cache%d' % i) for i in range(cfg.get('cdirs', 1))]
        self.default_cdir = Path(ROOT + '/home/.cache/parso')
        self.next_i = 0
        self.nsteps = 0
        self.sim_span = 0.0
        self.harness_error = None
        self.shared = bool(cfg.get('threads_share_process', False))

    # ------------------------------------------------------------------ util
    def count(self, key, n=1):
        self.counters[key] = self.counters.get(key, 0) + n

    def log(self, *ev):
        self.events.append(ev)

    def classify(self, path):
        s = os.fspath(path) if not isinstance(path, int) else '<fd>'
        if s.startswith(ROOT + '/src'):
            return 'src'
        if s.endswith('.pkl'):
            return 'pkl'
        if s.endswith('PARSO-CACHE-LOCK'):
            return 'lock'
        if s.startswith(ROOT + '/cache') or s.startswith(ROOT + '/home'):
            base = os.path.basename(s)
            if base.startswith('cache') or base in ('parso', '.cache', 'home') or base == pc._VERSION_TAG:
                return 'cdir'
            return 'ctmp'
        return 'other'

    def _real_file(self, path):
        """Editors save through a symlink: the target is (re)written, the link stays."""
        if path.endswith('/flink.py'):
            return ROOT + '/src/real_target.py'
        return path

    def cdir(self, i):
        return self.default_cdir if i < 0 else self.cdirs[i % len(self.cdirs)]

    def vdir(self, i):
        return os.path.join(os.fspath(self.cdir(i)), pc._VERSION_TAG)

    # ------------------------------------------------------- install / remove
    def __enter__(self):
        _reset_module_state()
        simfs.install()
        simfs.activate(self.fs)
        simfs.pid_provider = self._pid
        cfg = self.cfg
        self._saved = (pc.time, pc._CACHED_SIZE_TRIGGER, pc._CACHED_FILE_MINIMUM_SURVIVAL,
                       pc._default_cache_path, pdiff.DEBUG_DIFF_PARSER, warnings.showwarning,
                       dict(pc.parser_cache))
        self._real_locks = _install_cw_locks(self)
        pc.time = _Clock(self)
        pc._CACHED_SIZE_TRIGGER = cfg.get('size_trigger', 600)
        pc._CACHED_FILE_MINIMUM_SURVIVAL = cfg.get('min_survival', 600)
        pc._default_cache_path = self.default_cdir
        pdiff.DEBUG_DIFF_PARSER = bool(cfg.get('debug_diff', False))
        pc.parser_cache.clear()
        warnings.showwarning = self._showwarning
        self._wfilters = warnings.filters[:]
        warnings.simplefilter('error' if cfg.get('warn_error') else 'always')
        self._loghandler = _DiffLog(self)
        pdiff.LOG.addHandler(self._loghandler)
        self._loglevel = pdiff.LOG.level
        pdiff.LOG.setLevel(logging.DEBUG)
        pdiff.LOG.propagate = False
        self.fs.h_mkdirs(ROOT + '/src')
        if any('/link/' in f for f in self.files):
            # src/link -> src/a/deep: `src/link/../mod.py` is physically src/a/mod.py, lexically src/mod.py
            self.fs.h_mkdirs(ROOT + '/src/a/deep')
            self.fs.h_symlink(ROOT + '/src/link', ROOT + '/src/a/deep')
        for f in self.files:
            if '/link/' not in f:
                self.fs.h_mkdirs(os.path.dirname(f))
            if f.endswith('/flink.py'):
                self.fs.h_symlink(f, ROOT + '/src/real_target.py')     # the source path itself is a symlink
        nbulk = max([op.get('n', 0) for op in self.plan['ops'] if op.get('k') == 'bulk'] or [0])
        if nbulk:
            self.fs.h_mkdirs(ROOT + '/src/bulk')
            for i in range(nbulk):
                self.fs.h_write(ROOT + '/src/bulk/m%03d.py' % i, b'b%d = %d\n' % (i, i), mtime=T0 - 1000.0 + i)
        self._base_state = self._module_snapshot()
        self.procs = [Proc(self, i) for i in range(cfg.get('nproc', 1))]
        return self

    def __exit__(self, *a):
        for p in self.procs:
            p.task = None
            p.dead = True
            p.sem.release()
        for p in self.procs:
            p.thread.join(5)
        (pc.time, pc._CACHED_SIZE_TRIGGER, pc._CACHED_FILE_MINIMUM_SURVIVAL, pc._default_cache_path,
         pdiff.DEBUG_DIFF_PARSER, warnings.showwarning, saved_cache) = self._saved
        for mod, name, lock in getattr(self, '_real_locks', []):
            setattr(mod, name, lock)
        pc.parser_cache.clear()
        pc.parser_cache.update(saved_cache)
        warnings.filters[:] = self._wfilters
        pdiff.LOG.removeHandler(self._loghandler)
        pdiff.LOG.setLevel(self._loglevel)
        pdiff.LOG.propagate = True
        simfs.pid_provider = None
        simfs.activate(None)
        self.fs.hook = None

    def _pid(self):
        if self.cur is None:
            return None
        if self.shared:
            return 4000 + self.procs[0].incarnation % 10
        return 4000 + self.cur * 10 + self.procs[self.cur].incarnation % 10

    def _showwarning(self, message, category, filename, lineno, file=None, line=None):
        if self.cur is not None:
            ctx = self.procs[self.cur].ctx
            if ctx is not None:
                ctx.warnings.append(str(message)[:80])
                self.count('warning')

    def _on_enospc(self, e):
        if self.cur is not None:
            ctx = self.procs[self.cur].ctx
            if ctx is not None:
                ctx.injected.append(e)
                ctx.enospc = True
        self.count('fault.diskfull_enospc')

    # ------------------------------------------------------------ baton logic
    # A simulated process owns a private copy of the *module-level state* of the cache modules:
    # parser_cache, and whatever else a (changed) parso keeps in module globals (containers by shallow
    # copy, simple values by rebinding).  It is swapped whenever the baton moves, so two simulated
    # processes share nothing but the disk; a restarted process starts from the import-time state.
    _SIMPLE = (int, float, str, bytes, tuple, frozenset, bool, type(None), Path)

    def _module_snapshot(self):
        import parso.file_io as pfio
        snap = {}
        for mod in (pc, pfio):
            for name, val in vars(mod).items():
                if name.startswith('__'):
                    continue
                if isinstance(val, (dict, list, set)):
                    snap[(mod, name)] = ('c', val, val.copy())
                elif isinstance(val, self._SIMPLE):
                    snap[(mod, name)] = ('v', val, None)
        return snap

    def _module_restore(self, snap):
        import parso.file_io as pfio
        for mod in (pc, pfio):
            for name, val in list(vars(mod).items()):
                if name.startswith('__'):
                    continue
                key = (mod, name)
                if isinstance(val, (dict, list, set)):
                    if key in snap and snap[key][0] == 'c':
                        content = snap[key][2]
                    else:
                        content = _MODULE_STATE.get((mod.__name__, name), type(val)())
                    if isinstance(val, list):
                        val[:] = content
                    else:
                        val.clear()
                        val.update(content)
                elif isinstance(val, self._SIMPLE) and key in snap and snap[key][0] == 'v':
                    if snap[key][1] is not val:
                        setattr(mod, name, snap[key][1])

    def _install_cache(self, proc):
        if self.shared:
            return                       # threads of one process: one module state, never swapped
        self._module_restore(proc.state if proc.state is not None else self._base_state)

    def _save_cache(self, proc):
        if self.shared:
            return
        proc.state = self._module_snapshot()
        pc.parser_cache.clear()

    def _switch_to(self, proc):
        """Driver -> proc; returns the message the proc sends back."""
        self._install_cache(proc)
        self.cur = proc.pid
        self.msg = None
        proc.sem.release()
        if not self.driver_sem.acquire(timeout=SWITCH_TIMEOUT):
            raise HarnessError('simulated process %d did not come back' % proc.pid)
        return self.msg

    def _to_driver(self, proc, msg, wait=True):
        """Proc -> driver (called in the proc's thread)."""
        self._save_cache(proc)
        self.cur = None
        self.msg = msg
        self.driver_sem.release()
        if wait:
            if not proc.sem.acquire(timeout=SWITCH_TIMEOUT):
                raise HarnessError('driver did not resume process %d' % proc.pid)

    def _next_startable(self):
        if self.next_i >= len(self.plan['ops']):
            return False
        op = self.plan['ops'][self.next_i]
        p = op.get('p')
        if p is None:
            return True
        return (p % len(self.procs)) not in self.inflight

    def _choices(self, me):
        ch = []
        if self._next_startable():
            ch.append(('start',))
        for q in self.inflight:
            if q != me:
                ch.append(('resume', q))
        return ch

    # ------------------------------------------------------------- seam step
    def seam(self, kind, path, info):
        pid = self.cur
        if pid is None:
            return None
        proc = self.procs[pid]
        if proc.dead:
            raise SimCrash()
        ctx = proc.ctx
        ctx.steps += 1
        self.nsteps += 1
        if kind in ('read', 'write'):
            ctx.rw_steps += 1            # bounded by file size / chunk knob, not by the code's control flow
        if ctx.steps - ctx.rw_steps > STEP_CAP * ctx.cap_factor or ctx.rw_steps > 100 * STEP_CAP:
            raise StepCap('op %d exceeded %d seam steps' % (ctx.index, STEP_CAP))
        self.now += self.tick
        pclass = self.classify(path)
        if ctx.src_raws and pclass != 'src' and kind != 'read' and ctx.observed_at != len(ctx.src_raws[-1].bytes_read):
            # The op has read its source and now turns to the cache: from here on what it read can become
            # visible to others (in-memory item for a thread of the same process, pickle for everybody) -
            # before the op is finished.  (Soak run, seed 7001419: another thread was served the item while
            # the op that created it was still parked in its save; the pair was recorded only at the end.)
            ctx.observed_at = len(ctx.src_raws[-1].bytes_read)
            self._record_observed(ctx)
        if pclass == 'pkl':
            if kind == 'read':
                ctx.pkl_read = True
            elif kind == 'write':
                ctx.pkl_written = True
        elif pclass == 'src' and kind.startswith('open'):
            ctx.src_opened = True
        if kind in ('remove', 'rmtree'):
            self._check_remove(ctx, path, pclass, tree=(kind == 'rmtree'))
        if pclass in ('pkl', 'ctmp', 'lock', 'cdir') and kind in ('write', 'mkdir', 'replace', 'remove', 'utime', 'open:w',
                                                                    'open:a', 'open:x', 'rmtree'):
            ctx.cache_writes.append(kind)
        cfg = self.cfg
        size = info.get('size', 0)

        def chooser(rng):
            r = rng.random()
            py = cfg.get('p_yield', 0.0)
            if r < py:
                return rng.randint(D_YIELD_LO, 4)
            if pclass != 'src' or cfg.get('fault_src_crash', False):
                pf = cfg.get('p_fault', 0.0)
                if r < py + pf:
                    kinds = cfg.get('fault_kinds') or [D_CRASH_BEFORE]
                    k = rng.choice(kinds)
                    if k == D_TORN and kind != 'write':
                        k = D_CRASH_AFTER
                    if k in ONEOFF and pclass in ('src', 'other'):
                        k = D_CRASH_BEFORE
                    return k
            return 0

        d = 0 if (ctx.op.get('quiet') or ctx.op.get('givecode') or ctx.op['k'] in ('repaircheck', 'bulk')) \
            else ctx.decide(chooser)
        self.log('s', ctx.index, pid, kind, pclass, d, size)
        if d == D_NONE:
            self._observe(ctx, kind, path, pclass)
            return None
        if D_YIELD_LO <= d <= D_YIELD_HI:
            choices = self._choices(pid)
            if choices:
                self.count('yield')
                ctx.yielded = True
                self._to_driver(proc, ('yield', choices[(d - 1) % len(choices)]))
                if proc.dead:
                    raise SimCrash()
            self._observe(ctx, kind, path, pclass)
            return None
        if d == D_CRASH_BEFORE:
            proc.dead = True
            self.count('fault.crash_before.' + kind.split(':')[0])
            raise SimCrash()
        if d == D_CRASH_AFTER:
            proc.dead = True
            self.count('fault.crash_after.' + kind.split(':')[0])
            return Directive(after=SimCrash())
        if d == D_TORN:
            if kind != 'write':
                return None
            frac = ctx.decide(lambda rng: rng.randrange(256))
            proc.dead = True
            self.count('fault.torn_write')
            return Directive(limit=(size * frac) // 256, then=SimCrash())
        if d in ASYNC:
            # a failing allocation / the user's Ctrl-C while the cache file is read or written: the call may
            # end with that exception; what it leaves behind (memory and disk) must be consistent
            if pclass in ('src', 'other'):
                return None
            e = ASYNC[d]('simulated')
            ctx.injected.append(e)
            ctx.async_injected = True
            self.count('fault.async.' + FAULT_NAMES[d] + '.' + kind.split(':')[0])
            raise e
        if d in ONEOFF:
            if pclass in ('src', 'other'):
                return None
            code = ONEOFF[d]
            cls = {errno.EACCES: PermissionError, errno.ENOENT: FileNotFoundError}.get(code, OSError)
            e = cls(code, os.strerror(code), os.fspath(path) if not isinstance(path, int) else None)
            ctx.injected.append(e)
            self.count('fault.oneoff.' + FAULT_NAMES[d] + '.' + kind.split(':')[0])
            raise e
        return None

    def _observe(self, ctx, kind, path, pclass):
        # the call executes right after the seam returns: what a stat of the op's own source will see
        if kind == 'stat' and pclass == 'src' and not ctx.src_opened and ctx.op['k'] in ('parse', 'repaircheck') \
                and 'code' not in ctx.op and os.fspath(path) == self.files[ctx.op['f'] % len(self.files)]:
            n = self.fs.h_node(path)
            if n is not None and not n.is_dir:
                ctx.pre_mtimes.append(n.mtime)

    def _check_remove(self, ctx, path, pclass, tree=False):
        """Maintenance oracle: a process may only delete cache files unused for 30 days."""
        if ctx.op['k'] == 'clearcache':
            return                           # the user asked for it
        if tree:
            d = self.fs.h_node(path)
            if d is not None and d.is_dir and pclass != 'src' and not ctx.injected:
                stack = [d]
                while stack:
                    x = stack.pop()
                    for name, c in x.children.items():
                        if c.is_dir:
                            stack.append(c)
                        elif name.endswith('.pkl') and self.now - c.t_used < pc._CACHED_FILE_MAXIMUM_SURVIVAL - 1 \
                                and _data_valid(c.data):
                            self._violate(ctx, 'maintenance', 'remove-live:tree',
                                          'a directory tree with entries used %.0f s ago is removed: %s'
                                          % (self.now - c.t_used, os.path.basename(os.fspath(path))))
                            return
            return
        if ctx.op['k'] == 'clearcache':
            return                           # the user asked for it
        if pclass == 'src':
            self._violate(ctx, 'maintenance', 'remove-source', 'a parso process removed a source file %s' % path)
            return
        n = self.fs.h_node(path)
        if n is None or n.is_dir:
            return
        if ctx.injected:
            return                           # an op that was hit by an injected error itself is judged leniently
        last = n.t_used
        self.count('cleanup.remove')
        if pclass == 'pkl':
            if not _data_valid(n.data):
                return                       # a damaged entry is not "in use"
        if self.now - last < pc._CACHED_FILE_MAXIMUM_SURVIVAL - 1 and pclass in ('pkl', 'lock'):
            self._violate(ctx, 'maintenance', 'remove-live:' + pclass,
                          'clean-up removes %s, really last read or written %.0f s ago (atime %.0f s, mtime '
                          '%.0f s ago)' % (os.path.basename(os.fspath(path))[:16] + '...', self.now - last,
                                           self.now - n.atime, self.now - n.mtime))

    def _violate(self, ctx, clause, sig, detail):
        if self.violation is None:
            self.violation = Violation(clause, sig, detail, ctx.index if ctx else None)

    # ------------------------------------------------------------ driver loop
    def run(self):
        ops = self.plan['ops']
        pending = None
        t_start = self.now
        while self.violation is None and self.harness_error is None:
            if pending is not None:
                target, pending = pending, None
            elif self.inflight and not self._next_startable():
                target = ('resume', self.inflight[-1])
            elif self.inflight:
                target = ('resume', self.inflight[-1])
            elif self.next_i < len(ops):
                target = ('start',)
            else:
                break
            if target[0] == 'start':
                if not self._next_startable():
                    continue
                idx = self.next_i
                op = ops[idx]
                self.next_i += 1
                if op.get('p') is None:
                    self.log('e', idx, op['k'])
                    self._env_op(idx, op)
                    continue
                proc = self.procs[op['p'] % len(self.procs)]
                proc.task = op
                proc.ctx = OpCtx(self, idx, op)
                self._begin_proc_op(proc)
                self.log('b', idx, proc.pid, op['k'])
            else:
                proc = self.procs[target[1]]
                if proc.pid in self.inflight:
                    self.inflight.remove(proc.pid)
            msg = self._switch_to(proc)
            if msg[0] == 'yield':
                self.inflight.append(proc.pid)
                pending = msg[1]
                if pending[0] == 'resume' and pending[1] not in self.inflight:
                    pending = None
            else:
                self._finish_proc_op(proc)
        self.sim_span = self.now - t_start
        # never leave a paused op behind
        for pid in list(self.inflight):
            proc = self.procs[pid]
            proc.dead = True
            self._switch_to(proc)
        self.inflight.clear()
        return self.violation

    # ----------------------------------------------------- proc ops (threads)
    def _begin_proc_op(self, proc):
        ctx = proc.ctx
        op = ctx.op
        if op['k'] in ('parse', 'repaircheck') and 'code' not in op:
            f = op['f'] % len(self.files)
            n = self.fs.h_node(self.files[f])
            ctx.start = (None, None) if n is None else (n.data, n.mtime)
            ctx.damaged_at_start = self._entry_damaged(op, f)

    def _entry_damaged(self, op, f):
        try:
            g = grammar(self.cfg['grammars'][op['g'] % len(self.cfg['grammars'])])
            name = '%s-%s.pkl' % (g._hashed, hashlib.sha256(self.files[f].encode('utf-8', 'surrogatepass')).hexdigest())
            n = self.fs.h_node(os.path.join(self.vdir(op.get('c', 0)), name))
            if n is None or n.is_dir:
                return False
            return not _data_valid(n.data)
        except OSError:
            return False

    def _exec_proc_op(self, proc, op):
        """Runs in the proc's thread with the baton."""
        k = op['k']
        if k == 'parse':
            g = grammar(self.cfg['grammars'][op['g'] % len(self.cfg['grammars'])])
            f = op['f'] % len(self.files)
            mode = op.get('m', 'cache')
            kw = {'path': Path(self.files[f])}
            if op.get('strpath'):
                kw['path'] = self.files[f]
            elif op.get('direntry'):
                # an os.DirEntry as handed out by os.scandir(): an os.PathLike that is neither str nor Path
                node = self.fs.h_node(self.files[f])
                if node is not None and not node.is_dir:
                    # (a client may keep the entry objects of one directory listing for a while)
                    from .simfs import _DirEntry
                    key = ('direntry', self.files[f], proc.incarnation)
                    ent = proc.fio.get(key)
                    if ent is None or op.get('direntry') == 'new':
                        ent = proc.fio[key] = _DirEntry(self.fs, os.path.dirname(self.files[f]),
                                                         os.path.basename(self.files[f]), node)
                    kw['path'] = ent
            if 'code' in op:
                kw['code'] = op['code'].encode('utf-8', 'surrogatepass') if op.get('as_bytes') else op['code']
            elif op.get('givecode') and proc.ctx.start is not None and proc.ctx.start[0] is not None:
                # an editor that hands over the file's current content together with its path
                data = proc.ctx.start[0]
                if op['givecode'] == 'str':
                    try:
                        data = python_bytes_to_unicode(data)
                    except Exception:
                        pass
                kw['code'] = data
            elif op.get('fio'):
                # a client that keeps one FileIO object per file and passes it instead of the path
                from parso.file_io import FileIO
                key = (self.files[f], proc.incarnation)
                fio = proc.fio.get(key)
                if fio is None:
                    proc.fio.clear()
                    fio = proc.fio[key] = FileIO(self.files[f])
                del kw['path']
                kw['file_io'] = fio
            if mode in ('cache', 'cache+diff'):
                kw['cache'] = True
                c = op.get('c', 0)
                if c >= 0:
                    kw['cache_path'] = os.fspath(self.cdir(c)) if op.get('strpath') else self.cdir(c)
            if mode in ('diff', 'cache+diff'):
                kw['diff_cache'] = True
            before = None
            if mode == 'nocache':
                before = {k: dict(v) for k, v in pc.parser_cache.items()}
            try:
                m = g.parse(**kw)
            except SimCrash:
                return ('crash',)
            except (HarnessError, StepCap):
                raise
            except BaseException as e:
                return ('exc', e)
            if before is not None:
                after = {k: dict(v) for k, v in pc.parser_cache.items()}
                if proc.ctx.yielded and self.shared:
                    pass        # another thread of the same process ran meanwhile and may have cached things
                elif after.keys() != before.keys() or any(
                        after[k].keys() != before[k].keys() or any(after[k][p] is not before[k][p] for p in before[k])
                        for k in before):
                    proc.ctx.touched_cache = 'in-memory cache entries changed'
                elif proc.ctx.cache_writes:
                    proc.ctx.touched_cache = 'wrote under the cache directory: %s' % proc.ctx.cache_writes[:3]
            return ('ok', m)
        if k == 'repaircheck':
            # bounded recovery + repair: (new process) parse; (new process) parse again -> must be a disk hit
            g = grammar(self.cfg['grammars'][op['g'] % len(self.cfg['grammars'])])
            f = op['f'] % len(self.files)
            kw = {'path': Path(self.files[f]), 'cache': True}
            if op.get('c', 0) >= 0:
                kw['cache_path'] = self.cdir(op.get('c', 0))
            outs = []
            for i in range(2):
                if i == 1 or not op.get('inproc'):
                    self._module_restore(self._base_state)       # a new process
                proc.ctx.src_opened = False
                try:
                    outs.append(('ok', g.parse(**kw), None))
                except (SimCrash, HarnessError, StepCap):
                    raise
                except BaseException as e:
                    outs.append(('exc', e, None))
                outs[-1] = outs[-1][:2] + (proc.ctx.src_opened,)
            return ('pair', outs)
        if k == 'bulk':
            # a language server that has just indexed a package: n small files parsed with cache=True
            # (fills the in-memory cache up to and past its default size trigger of 600)
            g = grammar(self.cfg['grammars'][op['g'] % len(self.cfg['grammars'])])
            kw = {'cache': True}
            if op.get('c', 0) >= 0:
                kw['cache_path'] = self.cdir(op.get('c', 0))
            try:
                for i in range(op['n']):
                    g.parse(path=Path(ROOT + '/src/bulk/m%03d.py' % i), **kw)
            except (SimCrash, HarnessError, StepCap):
                raise
            except BaseException as e:
                return ('exc', e)
            return ('noop',)
        if k == 'clearcache':
            # `rm -rf` of the cache directory / parso.cache.clear_cache(): entry by entry, every call a
            # seam step, so that another process can be anywhere in its load / save meanwhile
            d = os.fspath(self.cdir(op.get('c', 0)))
            if op.get('api'):
                # the library's own entry point for it
                try:
                    pc.clear_cache(cache_path=Path(d))
                except SimCrash:
                    return ('crash',)
                except (HarnessError, StepCap):
                    raise
                except BaseException as e:           # e.g. FileNotFoundError: nothing to clear
                    return ('exc', e)
                return ('noop',)
            try:
                for dirpath, dirnames, filenames in os.walk(d, topdown=False):
                    for name in filenames:
                        os.remove(os.path.join(dirpath, name))
                    os.rmdir(dirpath)
            except SimCrash:
                return ('crash',)
            except (HarnessError, StepCap):
                raise
            except OSError:
                pass                                  # raced with a writer: `rm` gives up, too
            except BaseException as e:                # an injected MemoryError / KeyboardInterrupt
                return ('exc', e)
            if op.get('mem', True):
                pc.parser_cache.clear()
            return ('noop',)
        if k == 'usednames':
            # a client that uses the cached module between two edits
            g = grammar(self.cfg['grammars'][op['g'] % len(self.cfg['grammars'])])
            f = op['f'] % len(self.files)
            try:
                item = pc.parser_cache[g._hashed][Path(self.files[f])]
            except KeyError:
                return ('noop',)
            try:
                item.node.get_used_names()
            except Exception as e:
                return ('exc', e)
            return ('noop',)
        raise HarnessError('unknown proc op %r' % (k,))

    def _finish_proc_op(self, proc):
        ctx = proc.ctx
        res = proc.result
        proc.result = None
        if res[0] == 'harness':
            e = res[1]
            if isinstance(e, StepCap):
                self._violate(ctx, 'livelock', 'step-cap', str(e))
            else:
                self.harness_error = e
            return
        op = ctx.op
        self.log('d', ctx.index, proc.pid, res[0],
                 type(res[1]).__name__ if res[0] == 'exc' else '', ctx.steps)
        self._record_observed(ctx)
        if res[0] == 'crash' or proc.dead:
            self.count('op.crashed')
            self._restart(proc)
            return
        if op['k'] == 'parse':
            self._check_parse(proc, ctx, res)
        elif op['k'] == 'bulk' and res[0] == 'exc':
            e = res[1]
            self._violate(ctx, 'raises', 'raises:%s@%s' % (type(e).__name__, _site(e)),
                          'bulk parse of small files: %s: %s at %s' % (type(e).__name__, str(e)[:200], _site(e)))
        elif op['k'] == 'repaircheck':
            first, second = res[1]
            self._check_parse(proc, ctx, first[:2])
            if self.violation is None:
                self._check_parse(proc, ctx, second[:2])
            if self.violation is None and first[0] == 'ok' and second[0] == 'ok' \
                    and not (op.get('inproc') and not first[2]):
                # (in-process variant: only meaningful if the first parse really missed and had to save)
                self.count('probe.repair_checked_inproc' if op.get('inproc') else 'probe.repair_checked')
                if second[2] and self._picklable(op, ctx):
                    self._violate(ctx, 'not-repaired', 'not-repaired',
                                  'fault-free: a %s parsed and saved the file, the next new process '
                                  'still was not served from the disk cache'
                                  % ('process that had been running through the faults' if op.get('inproc')
                                     else 'new process'))

    def _record_observed(self, ctx):
        """An implementation may associate what it read with the latest mtime it observed itself
        *before* reading (with time moving forward that is never newer than the content).  If mtimes
        moved backwards meanwhile, or the read was torn by an in-place save, this pair is not one of
        the file's versions: record it (also for an op that crashed after saving), it may legitimately
        be served later while the file's mtime is not newer than that observation."""
        op = ctx.op
        if op['k'] not in ('parse', 'repaircheck') or 'code' in op or not ctx.pre_mtimes:
            return
        f = op['f'] % len(self.files)
        m_obs = max(ctx.pre_mtimes)
        for raw in ctx.src_raws:
            got = b''.join(raw.bytes_read)
            if not any(got == c and m is not None and m >= m_obs for c, m in self.versions.get(f, [])):
                self.versions.setdefault(f, []).append((got, m_obs))
                self.count('probe.observed_pair_recorded')

    def _restart(self, proc):
        if self.shared:
            # the whole process restarts: every thread of it dies, the memory cache is gone
            self._module_restore(self._base_state)
            for p in self.procs:
                if p.pid in self.inflight and p is not proc:
                    p.dead = True
                else:
                    p.dead = False
            self.procs[0].incarnation += 1
            return
        proc.state = None
        proc.dead = False
        proc.incarnation += 1

    # ------------------------------------------------------------ the oracle
    def _check_parse(self, proc, ctx, res):
        op = ctx.op
        version = self.cfg['grammars'][op['g'] % len(self.cfg['grammars'])]
        self.count('op.parse')
        mode = op.get('m', 'cache')
        # what happened (probes)
        if 'code' not in op:
            if ctx.src_opened:
                self.count('probe.miss')
            elif ctx.pkl_read:
                self.count('probe.disk_hit')
                if any(v[1] is not None for v in self.versions.get(op['f'] % len(self.files), [])[1:]):
                    self.count('probe.disk_hit_after_modification')
            elif mode != 'nocache':
                self.count('probe.mem_hit')
        if 'code' not in op and not ctx.src_opened and mode != 'nocache' \
                and len(self.versions.get(op['f'] % len(self.files), [])) > 1:
            self.count('probe.hit_after_modification')
        if ctx.diff_copy and ctx.diff_parse:
            self.count('probe.diff_copy_and_parse')
        if ctx.diff_copy or ctx.diff_parse:
            self.count('probe.diff_parser_ran')
        if ctx.inflight:
            self.count('probe.write_during_parse')
        if ctx.damaged_at_start:
            self.count('probe.parse_with_damaged_entry')
        if ctx.warnings:
            self.count('probe.save_warning')
        # admissible contents
        if 'code' in op:
            adm = [op['code'].encode('utf-8', 'surrogatepass') if op.get('as_bytes') else op['code']]
        else:
            f = op['f'] % len(self.files)
            c_now, m_now = ctx.start
            adm = [c_now]
            m_min = m_now
            for c, m in ctx.inflight:
                adm.append(c)
                if m is not None and (m_min is None or m < m_min):
                    m_min = m
            if m_min is not None and mode != 'nocache':
                # (a non-caching parse has no excuse: it must show what the file contains)
                for c, m in self.versions.get(f, []):
                    if m is not None and m >= m_min:
                        adm.append(c)
            for raw in ctx.src_raws:
                adm.append(b''.join(raw.bytes_read))
        seen = []
        for c in adm:
            if c not in seen:
                seen.append(c)
        adm = seen
        # actual outcome
        if res[0] == 'exc':
            e = res[1]
            chain = []
            x = e
            while x is not None and len(chain) < 8:
                chain.append(x)
                x = x.__cause__ or x.__context__
            name = type(e).__name__
            if self.cfg.get('warn_error') and isinstance(e, Warning):
                self.count('probe.warning_raised_as_error')
                return                       # the caller asked for warnings to be errors (-W error)
            if ctx.async_injected and any(y is x for y in chain for x in ctx.injected
                                          if isinstance(x, (MemoryError, KeyboardInterrupt))):
                self.count('probe.op_ended_by_async_exception')
                return                       # Ctrl-C / out of memory may end the call
            if any(y is x for y in chain for x in ctx.injected):
                # Errors are injected into cache-directory operations only (never into the source file):
                # "every point of failure injected into the save/load/clean-up file operations" must leave
                # the parse successful.  (Until round 6 an op was allowed to fail with the very error
                # injected into it; measured on the repaired tree, that only ever happened through the
                # warnings-as-errors knob above, so the allowance hid real failures and nothing else.)
                self.count('probe.op_failed_with_injected_error')
                site = _site(e)
                self._violate(ctx, 'raises', 'raises-injected:%s@%s' % (name, site),
                              'an error injected into a cache file operation escaped the parse: %s: %s at %s'
                              % (name, str(e)[:160], site))
                return
            for c in adm:
                r = ref_outcome(version, c)
                if r[0] == 'exc' and r[1] == name:
                    self.count('probe.expected_exception')
                    return
            site = _site(e)
            self._violate(ctx, 'raises', 'raises:%s@%s' % (name, site),
                          '%s: %s at %s' % (name, str(e)[:200], site))
            return
        m = res[1]
        if ctx.touched_cache:
            self._violate(ctx, 'noncaching-parse-touched-cache', 'noncaching-parse-touched-cache',
                          'a parse without cache=/diff_cache= %s' % ctx.touched_cache)
            return
        try:
            sig, problems = tree_sig(m)
            code = code_of(m)
        except Exception as e:
            self._violate(ctx, 'tree-broken', 'tree-broken:' + type(e).__name__,
                          'returned tree cannot be walked: %r' % (e,))
            return
        if problems:
            self._violate(ctx, 'parent-links', 'parent-links', '; '.join(problems[:3]))
            return
        best = None
        for c in adm:
            r = ref_outcome(version, c)
            if r[0] == 'ok' and r[1] == sig:
                best = r
                break
        if best is None:
            # classify: round trip against any admissible text?
            texts = []
            for c in adm:
                r = ref_outcome(version, c)
                if r[0] == 'ok':
                    texts.append(r[2])
            if code in texts:
                clause = 'tree-differs'
                detail = self._tree_diff(version, m, code)
            elif any(ref_outcome(version, c)[0] == 'exc' for c in adm) and not texts:
                clause = 'should-raise'
                detail = 'returned a tree for %r although the reference raises' % (code[:80],)
            else:
                known = self._which_version(op, code)
                clause = 'stale-or-foreign' if known else 'wrong-text'
                detail = 'returned tree reproduces %r (%s); admissible: %s' % (
                    code[:120], known or 'never a content of this file',
                    [t[:60] for t in texts[:4]])
            self._violate(ctx, clause, clause, detail)
            return
        # C04 clause: data derived from the old tree is never stale
        if self.profile == 'diff' or op.get('m') in ('diff', 'cache+diff'):
            un = used_names_sig(m)
            if un != best[3]:
                self._violate(ctx, 'used-names', 'used-names',
                              'get_used_names() of the returned module differs from a fresh parse: %r vs %r'
                              % (str(un)[:200], str(best[3])[:200]))
                return

    def _picklable(self, op, ctx):
        """Can a tree of this file be pickled at all?  (About 150 nested blocks cannot: then there is
        no entry to repair and the expectation of a disk hit does not apply.)"""
        version = self.cfg['grammars'][op['g'] % len(self.cfg['grammars'])]
        n = self.fs.h_node(self.files[op['f'] % len(self.files)])
        if n is None:
            return True
        try:
            pickle.dumps(grammar(version).parse(n.data), pickle.HIGHEST_PROTOCOL)
            return True
        except RecursionError:
            self.count('probe.unpicklable_source')
            return False
        except Exception:
            return True

    def _tree_diff(self, version, m, code):
        try:
            a = tree_lines(m)
            b = tree_lines(grammar(version).parse(code))
            for i, (x, y) in enumerate(zip(a, b)):
                if x != y:
                    return 'first difference at item %d: got %s | fresh %s' % (i, x.strip()[:100], y.strip()[:100])
            return 'length differs: got %d items, fresh %d' % (len(a), len(b))
        except Exception as e:
            return 'diff failed: %r' % (e,)

    def _which_version(self, op, code):
        for fi, vs in self.versions.items():
            for k, (c, m) in enumerate(vs):
                if c is None:
                    continue
                try:
                    t = python_bytes_to_unicode(c)
                except Exception:
                    continue
                if t == code:
                    return 'version %d of file %d (this op: file %d)' % (k, fi, op['f'] % len(self.files))
        return None

    # ---------------------------------------------------------------- env ops
    def _record_version(self, f, content, mtime):
        self.versions.setdefault(f, []).append((content, mtime))
        for pid in self.inflight:
            ctx = self.procs[pid].ctx
            if ctx is not None and ctx.op['k'] == 'parse' and 'code' not in ctx.op \
                    and ctx.op['f'] % len(self.files) == f:
                ctx.inflight.append((content, mtime))

    def _env_op(self, idx, op):
        k = op['k']
        fs = self.fs
        self.count('env.' + k)
        if k in ('edit', 'trunc'):
            f = op['f'] % len(self.files)
            path = self.files[f]
            self.now += op.get('dt', 0.0)
            old = fs.h_node(path)
            data = b'' if k == 'trunc' else encode_text(op)
            mt = op.get('mt')
            if mt == 'same' and old is not None:
                mtime = old.mtime
            elif mt == 'epoch':
                mtime = 0.0                    # --mtime=@0 tarballs, reproducible-build checkouts
            elif isinstance(mt, (int, float)):
                mtime = fs.stamp() + mt
                if fs.gran:
                    import math
                    mtime = math.floor(mtime / fs.gran + 1e-9) * fs.gran
            else:
                mtime = None
            skew = 0.0 if op.get('noskew') else self.cfg.get('src_skew', 0.0)
            if skew and mtime is None:
                # the sources live on another file system (server) whose clock is off by `skew`
                import math
                mtime = fs.stamp() + skew
                if fs.gran:
                    mtime = math.floor(mtime / fs.gran + 1e-9) * fs.gran
            n = fs.h_write(self._real_file(path), data, mtime=mtime,
                           atomic=(op.get('how', 'atomic') == 'atomic' and k == 'edit'))
            self._record_version(f, n.data, n.mtime)
        elif k == 'touch':
            f = op['f'] % len(self.files)
            self.now += op.get('dt', 0.0)
            n = fs.h_node(self.files[f])
            if n is not None:
                n.mtime = fs.stamp() + self.cfg.get('src_skew', 0.0)
                self._record_version(f, n.data, n.mtime)
        elif k == 'rmfile':
            f = op['f'] % len(self.files)
            if fs.h_remove(self._real_file(self.files[f])):
                self._record_version(f, None, None)
        elif k == 'restart':
            proc = self.procs[op['proc'] % len(self.procs)]
            if proc.pid in self.inflight:
                proc.dead = True             # killed mid-op; unwinds when resumed
                self.count('fault.kill_paused')
            else:
                self._restart(proc)
        elif k == 'clock':
            self.now += op['dt']
        elif k == 'rmcache':
            d = self.cdir(op.get('c', 0))
            try:
                par, name = fs.parent(d)
                par.children.pop(name, None)
            except OSError:
                pass
        elif k == 'rmver':
            d = self.vdir(op.get('c', 0))
            try:
                par, name = fs.parent(d)
                par.children.pop(name, None)
            except OSError:
                pass
        elif k == 'chmod':
            target = self.cdir(op.get('c', 0)) if op.get('which', 'root') == 'root' else self.vdir(op.get('c', 0))
            n = fs.h_node(target)
            if n is None and op.get('create'):
                n = fs.h_mkdirs(target)
            if n is not None:
                n.mode = op['mode']
        elif k == 'corrupt':
            self._corrupt(op)
        elif k == 'tmpfile':
            vd = self.vdir(op.get('c', 0))
            if fs.h_node(vd) is not None:
                rng = random.Random(op.get('r', 0))
                name = rng.choice(['tmp%06d' % rng.randrange(10 ** 6), 'x.pkl.tmp', '.nfs0001', 'a-b.pkl.%d' % rng.randrange(9999)])
                fs.h_write(os.path.join(vd, name), bytes(rng.randrange(256) for _ in range(rng.randrange(64))))
        elif k == 'age':
            # the entries (or the lock) were last touched `days` ago
            vd = self.vdir(op.get('c', 0))
            t = self.now - op['days'] * DAY
            files = fs.h_files(vd)
            if files:
                if op.get('sel') is None:
                    targets = files
                else:
                    targets = [files[op['sel'] % len(files)]]
                for name, n in targets:
                    n.atime = n.mtime = n.t_used = t
            if op.get('lock'):
                n = fs.h_node(os.path.join(os.fspath(self.cdir(op.get('c', 0))), 'PARSO-CACHE-LOCK'))
                if n is not None:
                    n.atime = n.mtime = self.now - op['lock'] * DAY
        elif k == 'sibling':
            # another parso installation (other pickle version) shares the cache directory
            base = pc._VERSION_TAG.rsplit('-', 1)[0]
            d = os.path.join(os.fspath(self.cdir(op.get('c', 0))), '%s-%d' % (base, pc._PICKLE_VERSION + op.get('dv', -1)))
            dn = fs.h_mkdirs(d)
            some = pickle.dumps(pc._NodeCacheItem('tree of the other installation', ['x\n'], self.now), pickle.HIGHEST_PROTOCOL)
            n = fs.h_write(os.path.join(d, 'aaaa-bbbb.pkl'), some)
            # when that installation saved the entry, when it last loaded it, and the directory's own mtime
            # (a directory does not change when a file in it is read, or overwritten in place)
            saved = self.now - op.get('saved_days', 0) * DAY
            n.mtime = saved
            n.atime = n.t_used = self.now - min(op.get('saved_days', 0), op.get('read_days', 0)) * DAY
            dn = fs.h_node(d)
            if dn is not None:
                dn.mtime = saved
        elif k == 'srcblock':
            # the path handed to parse(code, path=...) cannot be stat'ed any more: its directory was replaced
            # by a plain file (ENOTDIR) or lost its search permission (EACCES); 'ok' puts it back
            f = op['f'] % len(self.files)
            pdir = os.path.dirname(self.files[f])
            saved = self.__dict__.setdefault('_blocked', {})
            for key in list(saved):                      # at most one blocked directory at a time
                par, name, node, mode = saved.pop(key)
                par.children[name] = node
                node.mode = mode
            if op.get('how') in ('notdir', 'noperm'):
                fs.h_mkdirs(pdir)
                par, name = fs.parent(pdir)
                node = par.children[name]
                saved[pdir] = (par, name, node, node.mode)
                if op['how'] == 'notdir':
                    par.children[name] = fs._new(False, 0o644)
                else:
                    node.mode = 0
        elif k == 'rmlock':
            fs.h_remove(os.path.join(os.fspath(self.cdir(op.get('c', 0))), 'PARSO-CACHE-LOCK'))
        elif k == 'diskfull':
            fs.disk_free = op.get('free')
        elif k == 'sync':
            self._sync()
        elif k == 'powerloss':
            self._powerloss(idx, op)
        elif k == 'heal':
            fs.disk_free = None
            for i in list(range(len(self.cdirs))) + [-1]:
                for target in (self.cdir(i), self.vdir(i)):
                    n = fs.h_node(target)
                    if n is not None:
                        n.mode = 0o755
            latest = self.now
            stack = [fs.root]
            while stack:
                n = stack.pop()
                latest = max(latest, n.mtime)
                if n.is_dir:
                    stack.extend(n.children.values())
            self.now = latest + 5.0
            if not op.get('keep_procs'):
                for p in self.procs:
                    if p.pid not in self.inflight:
                        self._restart(p)
        else:
            raise HarnessError('unknown env op %r' % (k,))

    def _pickles(self, c):
        return [(name, n) for name, n in self.fs.h_files(self.vdir(c)) if name.endswith('.pkl')]

    def _corrupt(self, op):
        files = self._pickles(op.get('c', 0))
        if not files:
            self.count('corrupt.no_target')
            return
        name, n = files[op.get('sel', 0) % len(files)]
        data = n.data
        how = op['how']
        rng = random.Random(op.get('r', 0))
        L = len(data)
        if how == 'empty':
            new = b''
        elif how == 'truncate-frac':
            new = data[:(L * op.get('a', 0)) // max(1, op.get('b', 32))]      # a/b of the file; a == b keeps it
        elif how == 'truncate':
            new = data[:op.get('a', 0) % (L + 1)] if L else b''
        elif how == 'overwrite':
            a = op.get('a', 0) % (L + 1)
            b = min(L, a + 1 + op.get('b', 0) % 64)
            new = data[:a] + bytes(rng.randrange(256) for _ in range(b - a)) + data[b:]
        elif how == 'zero':
            a = op.get('a', 0) % (L + 1)
            b = min(L, a + 1 + op.get('b', 0) % 512)
            new = data[:a] + b'\0' * (b - a) + data[b:]
        elif how == 'garbage':
            new = bytes(rng.randrange(256) for _ in range(op.get('a', 0) % 300))
        elif how == 'text':
            new = b'this is not a pickle\n' * (1 + op.get('a', 0) % 4)
        elif how == 'other-object':
            def shaped(**kw):
                it = object.__new__(pc._NodeCacheItem)       # e.g. written by a parso with another item layout
                it.__dict__.update(kw)
                return it
            objs = [[1, 2, 3], {'node': None}, 'a string', 42, None, ('node', 'lines'), pc._NodeCacheItem,
                    shaped(), shaped(node='x', lines=[]), shaped(node='x', lines=[], change_time='now', last_used=0.0),
                    shaped(node='x', lines=None, change_time=1e12, last_used=1e12),
                    shaped(node='x', lines=[], change_time=1e12, last_used=None),
                    shaped(node='x', lines=[], change_time=None, last_used=None)]
            new = pickle.dumps(objs[op.get('a', 0) % len(objs)], pickle.HIGHEST_PROTOCOL)
        elif how == 'splice':
            others = [x for x in files if x[1] is not n and x[1].data]
            if not others or not L:
                new = b''
            else:
                o = others[op.get('b', 0) % len(others)][1].data
                a = op.get('a', 0) % min(L, len(o))
                new = o[:a] + data[a:]
        elif how == 'attr':
            # partial overwrite that hits the bookkeeping of the item: an attribute name or value
            names = [b'change_time', b'last_used', b'lines', b'node']
            name = names[op.get('a', 0) % len(names)]
            k = data.rfind(name)
            if k < 0:
                new = data
            else:
                c = op.get('b', 0) % 3
                if c == 0:
                    new = data[:k] + bytes([data[k] ^ 0x01]) + data[k + 1:]          # key renamed
                elif c == 1:
                    new = data[:k + len(name)] + bytes(rng.randrange(256) for _ in range(3)) + data[k + len(name) + 3:]
                else:
                    new = data[:k - 2] + bytes(rng.randrange(256) for _ in range(2)) + data[k:]
        elif how == 'shape':
            # a file that still unpickles to a _NodeCacheItem, with one piece of it wrong or missing (written
            # by another item layout, or a partial overwrite that happens to stay loadable); tree and
            # change time are kept, so that every later use of the item meets the damage
            try:
                item = pickle.loads(data)
                if type(item) is not pc._NodeCacheItem:
                    # (an earlier corruption may have left e.g. the pickle of a *class*: setting
                    # attributes on that would be the harness damaging parso - soak, seed 27000286)
                    raise ValueError('not an item')
                variant = op.get('a', 0) % 6
                if variant == 0:
                    item.lines = None
                elif variant == 1:
                    del item.lines
                elif variant == 2:
                    item.lines = ''.join(item.lines)
                elif variant == 3:
                    item.last_used = None
                elif variant == 4:
                    item.node = None
                else:
                    item.lines = [ln.encode('utf-8', 'replace') for ln in item.lines]
                new = pickle.dumps(item, pickle.HIGHEST_PROTOCOL)
            except Exception:
                new = data
        elif how == 'append':
            new = data + bytes(rng.randrange(256) for _ in range(1 + op.get('a', 0) % 40))
        else:
            raise HarnessError('unknown corruption %r' % how)
        if new == data:
            self.count('corrupt.noop')
            return
        if not op.get('force'):
            # The harness must look at the damaged bytes to classify them, and looking (unpickling) can
            # itself apply object state to parso's classes.  Whatever parso did before is settled first,
            # whatever the trial load does is undone, and bytes that do this are not injected: like
            # silent bit rot and memory bombs, no cache that unpickles unverified bytes can survive them
            # (known finding F1; its witness plan injects such a file on purpose).
            before = poison_check()
            if before and self.violation is None:
                self.violation = Violation('process-state-corrupted', 'process-state-corrupted',
                                           'loading a cache file modified parso classes in this process: '
                                           + ', '.join(before[:6]))
            try:
                _safe_loads(new)
            except BaseException:
                pass
            if poison_check():
                self.count('corrupt.skipped_poisoning')
                return
        # a corruption that still unpickles to a cache item is not detectable by any implementation
        # that does not checksum its files; the property lists detectable damage only.
        if how != 'other-object':
            try:
                obj = _safe_loads(new)
                if _valid_item(obj):
                    # still a structurally valid cache item: silent bit rot, which no implementation
                    # without a checksum can notice; the property lists detectable damage only
                    self.count('corrupt.skipped_undetectable')
                    return
                if isinstance(obj, pc._NodeCacheItem):
                    self.count('corrupt.loadable_but_invalid_item')
            except BaseException:
                pass
        n.data = new
        n.dirty = True
        if op.get('keep_mtime', True) is False:
            n.mtime = self.fs.stamp()
        self.count('corrupt.' + how)

    def _sync(self):
        stack = [self.fs.root]
        while stack:
            n = stack.pop()
            if n.is_dir:
                stack.extend(n.children.values())
            else:
                n.durable = n.data
                n.dirty = False

    def _powerloss(self, idx, op):
        """All processes die; unsynced cache files revert to what a journalled FS may leave."""
        tape = op.setdefault('t', [])
        rng = random.Random(self.seed * 1000003 + idx * 7919 + 29)
        pos = 0
        for i in list(range(len(self.cdirs))) + [-1]:
            vd = self.fs.h_node(self.vdir(i))
            if vd is None or not vd.is_dir:
                continue
            for name in sorted(vd.children):
                n = vd.children[name]
                if n.is_dir or not n.dirty:
                    continue
                if pos < len(tape):
                    d = tape[pos]
                elif self.generate:
                    d = rng.randrange(6)
                    tape.append(d)
                else:
                    d = 0
                pos += 1
                cur = n.data
                if d == 0:
                    pass                                  # data made it to disk
                elif d == 1:
                    n.data = b''                          # size update lost / data not written
                elif d == 2:
                    n.data = cur[:len(cur) // 2]
                elif d == 3:
                    n.data = b'\0' * len(cur)             # size committed, blocks not
                elif d == 4:
                    if n.durable is None:
                        del vd.children[name]             # directory entry lost
                    else:
                        n.data = n.durable
                else:
                    n.data = cur[:max(0, len(cur) - 1)]
                self.count('fault.powerloss.file.%d' % d)
                n.dirty = False
                n.durable = n.data
        for p in self.procs:
            if p.pid in self.inflight:
                p.dead = True
            else:
                self._restart(p)


class _DiffLog(logging.Handler):
    def __init__(self, world):
        super().__init__(logging.DEBUG)
        self.w = world

    def emit(self, record):
        w = self.w
        if w.cur is None:
            return
        ctx = w.procs[w.cur].ctx
        if ctx is None:
            return
        msg = record.msg
        if msg.startswith('copy old'):
            ctx.diff_copy += 1
        elif msg.startswith('parse_part'):
            ctx.diff_parse += 1


def _site(e):
    """Innermost parso frame of an exception: function name + source line text."""
    tb = traceback.extract_tb(e.__traceback__)
    for fr in reversed(tb):
        fn = fr.filename.replace('\\', '/')
        if '/parso/' in fn and '/dst/' not in fn:
            return '%s:%s' % (fr.name, (fr.line or '').strip()[:60])
    return 'outside-parso'


def on_open_hook(world):
    """SimFS calls fs.on_open(raw) for every descriptor; attach source reads to the op."""
    def f(raw):
        if world.cur is None:
            return
        ctx = world.procs[world.cur].ctx
        if ctx is None or ctx.op['k'] not in ('parse', 'repaircheck') or 'code' in ctx.op:
            return
        if raw.path == world.files[ctx.op['f'] % len(world.files)] and raw._r:
            ctx.src_raws.append(raw)
    return f


_MODULE_STATE = {}


def _reset_module_state():
    """Runs share a worker process.  Module-level containers of the cache modules (parser_cache and
    whatever a changed parso adds, e.g. a set of directories it believes to exist) are put back to
    their import-time content before every run, so that a run depends on its plan only."""
    import copy as _copy
    import parso.file_io as pfio
    for mod in (pc, pfio):
        for name, val in list(vars(mod).items()):
            if name.startswith('__') or not isinstance(val, (dict, list, set)):
                continue
            key = (mod.__name__, name)
            if key not in _MODULE_STATE:
                try:
                    _MODULE_STATE[key] = _copy.copy(val) if mod is not pc or name != 'parser_cache' else {}
                except Exception:
                    continue
            base = _MODULE_STATE[key]
            try:
                if isinstance(val, list):
                    val[:] = base
                else:
                    val.clear()
                    val.update(base)
            except Exception:
                pass


_CLASS_BASE = None


def _class_snapshot():
    import parso.python.tree as T
    import parso.tree as BT
    out = {}
    for mod in (T, BT, pc):
        for name, c in vars(mod).items():
            if isinstance(c, type) and getattr(c, '__module__', '').startswith('parso'):
                out[c] = {k: v for k, v in vars(c).items() if k != '__slotnames__'}
    return out


def poison_check(repair=True):
    """Unpickling a damaged cache file can apply object state to parso's *classes*.  Returns a
    description of what changed in the class dictionaries since the first call and undoes it."""
    global _CLASS_BASE
    if _CLASS_BASE is None:
        _CLASS_BASE = _class_snapshot()
        return []
    changes = []
    for c, base in _CLASS_BASE.items():
        cur = {k: v for k, v in vars(c).items() if k != '__slotnames__'}
        if cur.keys() != base.keys() or any(cur[k] is not base[k] for k in base):
            for k in sorted(set(cur) - set(base)):
                changes.append('%s.%s added' % (c.__name__, k))
                if repair:
                    try:
                        delattr(c, k)
                    except Exception:
                        pass
            for k in sorted(base):
                if k in cur and cur[k] is not base[k]:
                    changes.append('%s.%s replaced' % (c.__name__, k))
                    if repair:
                        try:
                            setattr(c, k, base[k])
                        except Exception:
                            pass
                elif k not in cur:
                    changes.append('%s.%s removed' % (c.__name__, k))
    return changes


def execute(plan, generate=False):
    """Run one plan.  Returns dict(violation, events digest, counters, ...)."""
    with World(plan, generate=generate) as w:
        w.fs.on_open = on_open_hook(w)
        for f, init in enumerate(plan.get('init', [])):
            if init is None:
                continue
            w.now += 1.0
            n = w.fs.h_write(w._real_file(w.files[f]), encode_text(init))
            w.versions.setdefault(f, []).append((n.data, n.mtime))
        w.now += plan['config'].get('warmup', 3.0)
        poison_check()
        del _PENDING_POISON[:]
        v = w.run()
        poisoned = poison_check() + _PENDING_POISON
        del _PENDING_POISON[:]
        if poisoned and v is None:
            v = Violation('process-state-corrupted', 'process-state-corrupted',
                          'loading a cache file modified parso classes in this process (every later parse '
                          'is affected): ' + ', '.join(poisoned[:6]))
        digest = hashlib.sha1(repr(w.events).encode()).hexdigest()
        return {
            'violation': v.as_dict() if v is not None else None,
            'harness_error': None if w.harness_error is None else repr(w.harness_error),
            'digest': digest,
            'counters': dict(w.counters),
            'steps': w.nsteps,
            'sim_span': w.sim_span,
            'events': w.events,
        }
