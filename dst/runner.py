"""Seeded search, shrinking, replay files, evidence, known findings (cache world)."""
import copy
import faulthandler
import hashlib
import json
import os
import subprocess
import sys
import time

VERIF = os.path.dirname(os.path.dirname(os.path.abspath(__file__)))
PROFILE_OF = {'C04': 'diff', 'C16': 'stale', 'C17': 'torn'}


def _lazy():
    from . import cacheworld, gen
    return cacheworld, gen


# ---------------------------------------------------------------------------
def run_seed(profile, seed, tier):
    cw, gen = _lazy()
    plan = gen.make_plan(profile, seed, tier)
    res = cw.execute(plan, generate=True)
    return plan, res


def replay_plan(plan):
    cw, gen = _lazy()
    plan = copy.deepcopy(plan)
    return cw.execute(plan, generate=False)


def nontrivial(profile, counters):
    c = counters
    if profile == 'torn':
        return any(k.startswith('fault.') or (k.startswith('corrupt.') and k not in (
            'corrupt.no_target', 'corrupt.noop', 'corrupt.skipped_undetectable')) for k in c) \
            or c.get('probe.parse_with_damaged_entry', 0) > 0
    if profile == 'stale':
        return c.get('probe.hit_after_modification', 0) > 0 or c.get('probe.write_during_parse', 0) > 0
    if profile == 'diff':
        return c.get('probe.diff_copy_and_parse', 0) > 0
    return False


RULES = {
    'torn': "one case = one seeded plan (swarm config + op list with per-op decision tapes) executed in the cache "
            "world, or one variant of a recorded plan in a systematic sweep (one seeded history in 240 [quick] / 80 "
            "[thorough] is re-executed once per seam step x {crash before, crash after, EIO, EACCES, torn write at 3 "
            "offsets}, and another one once per pickle x 33 truncation offsets (0/32 .. 32/32 of the file) followed by a "
            "new process, cached parses, heal and repair check); non-trivial = at least one fault fired inside an op (crash, torn write, one-off errno, disk "
            "full, power loss, killed while paused), a corruption was applied to an existing pickle, or a parse ran "
            "against a damaged entry; distinct = distinct sha1 of the full event log (every seam step with process, "
            "call kind, path class, decision and size, plus op boundaries and outcomes)",
    'stale': "one case = one seeded plan executed in the cache world without faults; non-trivial = a memory or disk "
             "hit was served for a file that had been modified before, or an editor write landed while a parse of "
             "that file was in flight; distinct = distinct sha1 of the full event log",
    'diff': "one case = one seeded edit history (plan) executed against the diff parser; every third seed is the "
            "next (snippet, elementary edit kind) pair of a systematic sweep: the edit is applied at every line in "
            "turn, each time followed by the undo; non-trivial = in at least "
            "one step the diff parser both copied old nodes and re-parsed a part; distinct = distinct sha1 of the "
            "event log (ops, seam steps, outcomes)",
}


# ---------------------------------------------------------------------------
# shrinking
# ---------------------------------------------------------------------------
def _same(res, sig):
    v = res['violation']
    return v is not None and v['sig'] == sig and res['harness_error'] is None


def shrink(plan, sig, budget_runs=400, budget_s=90):
    """ddmin over ops, then tapes, then texts.  Keeps the violation signature."""
    t0 = time.time()
    runs = [0]
    best = copy.deepcopy(plan)

    def test(p):
        if runs[0] >= budget_runs or time.time() - t0 > budget_s:
            return False
        runs[0] += 1
        try:
            return _same(replay_plan(p), sig)
        except BaseException:
            return False

    def ddmin_list(get, set_):
        items = get(best)
        n = 2
        while len(items) >= 1:
            chunk = max(1, len(items) // n)
            reduced = False
            i = 0
            while i < len(items):
                cand_items = items[:i] + items[i + chunk:]
                cand = copy.deepcopy(best)
                set_(cand, cand_items)
                if test(cand):
                    best.clear()
                    best.update(cand)
                    items = get(best)
                    reduced = True
                else:
                    i += chunk
            if chunk == 1 and not reduced:
                break
            if not reduced:
                n = min(len(items), n * 2) if len(items) > 1 else 2
                if chunk == 1:
                    break
            if runs[0] >= budget_runs or time.time() - t0 > budget_s:
                break

    # 1. ops
    ddmin_list(lambda p: p['ops'], lambda p, v: p.__setitem__('ops', copy.deepcopy(v)))
    # 2. tapes: zero whole tape, then single entries
    for i in range(len(best['ops'])):
        op = best['ops'][i]
        t = op.get('t')
        if not t or not any(t):
            if t:
                op['t'] = []
            continue
        cand = copy.deepcopy(best)
        cand['ops'][i]['t'] = []
        if test(cand):
            best['ops'][i]['t'] = []
            continue
        for j in range(len(t)):
            if best['ops'][i]['t'][j] == 0:
                continue
            cand = copy.deepcopy(best)
            cand['ops'][i]['t'][j] = 0
            if test(cand):
                best['ops'][i]['t'][j] = 0
        tt = best['ops'][i]['t']
        while tt and tt[-1] == 0:
            tt.pop()
    # 3. texts (line-wise)
    def shrink_text(getter, setter):
        text = getter(best)
        if not text:
            return
        lines = text.split('\n')
        n = 2
        while len(lines) > 1:
            chunk = max(1, len(lines) // n)
            reduced = False
            i = 0
            while i < len(lines):
                cand_lines = lines[:i] + lines[i + chunk:]
                cand = copy.deepcopy(best)
                setter(cand, '\n'.join(cand_lines))
                if test(cand):
                    best.clear()
                    best.update(cand)
                    lines = cand_lines
                    reduced = True
                else:
                    i += chunk
            if chunk == 1:
                break
            if not reduced:
                n = min(len(lines), n * 2)
            if runs[0] >= budget_runs or time.time() - t0 > budget_s:
                break

    for i in range(len(best['ops'])):
        for key in ('text', 'code'):
            if key in best['ops'][i]:
                shrink_text(lambda p, i=i, key=key: p['ops'][i].get(key),
                            lambda p, v, i=i, key=key: p['ops'][i].__setitem__(key, v))
    for i in range(len(best.get('init', []))):
        if best['init'][i]:
            shrink_text(lambda p, i=i: p['init'][i]['text'], lambda p, v, i=i: p['init'][i].__setitem__('text', v))
    # 4. knobs back to defaults
    for key, default in (('max_write', 0), ('max_read', 0), ('bufsize', 8192), ('tick', 0.0), ('size_trigger', 600),
                         ('min_survival', 600), ('debug_diff', False), ('gran', 0.0), ('warmup', 3.0)):
        if best['config'].get(key, default) != default:
            cand = copy.deepcopy(best)
            cand['config'][key] = default
            if test(cand):
                best['config'][key] = default
    best['config']['p_yield'] = 0.0
    best['config']['p_fault'] = 0.0
    return best, runs[0]


# ---------------------------------------------------------------------------
# known findings
# ---------------------------------------------------------------------------
def load_known():
    p = os.path.join(VERIF, 'known_findings.json')
    try:
        with open(p) as f:
            return json.load(f)
    except FileNotFoundError:
        return {'findings': [], 'fixed': []}


def match_known(prop, violation, known):
    for k in known.get('findings', []):
        if k['property'] == prop and violation['sig'] in k.get('sigs', []):
            return k
    return None


# ---------------------------------------------------------------------------
# parallel search
# ---------------------------------------------------------------------------
class _StderrFilter:
    """The C unpickler prints 'SystemError: deallocated bytearray object has exported buffers' (with a
    chained traceback) straight to sys.stderr for some damaged pickles.  That is noise from the code
    under test doing its job; it is counted and dropped, everything else is passed on."""

    def __init__(self, real):
        self.real = real
        self.buf = []
        self.dropped = 0

    def write(self, s):
        self.buf.append(s)
        return len(s)

    def flush(self):
        pass

    def end_of_run(self):
        if self.buf:
            text = ''.join(self.buf)
            self.buf = []
            if 'deallocated bytearray object has exported buffers' in text:
                self.dropped += 1
            else:
                self.real.write(text)
                self.real.flush()

    def __getattr__(self, name):
        return getattr(self.real, name)


def _worker(args):
    profile, tier, seeds, deadline, want_samples = args
    from . import pool
    pool.limit_memory()
    faulthandler.dump_traceback_later(550, exit=True)
    filt = sys.stderr = _StderrFilter(sys.stderr)
    try:
        return _worker_body(profile, tier, seeds, deadline, want_samples, filt)
    finally:
        filt.end_of_run()
        sys.stderr = filt.real


def _worker_body(profile, tier, seeds, deadline, want_samples, filt):
    out = {'runs': 0, 'counters': {}, 'digests': {}, 'violations': [], 'harness': [], 'steps': 0,
           'sim_span': 0.0, 'samples': [], 'seeds': []}
    for seed in seeds:
        if time.time() > deadline:
            break
        try:
            plan, res = run_seed(profile, seed, tier)
        except BaseException as e:
            import traceback
            out['harness'].append('seed %d: %r\n%s' % (seed, e, traceback.format_exc()[-1500:]))
            continue
        filt.end_of_run()
        out['counters']['probe.c_unpickler_systemerror_prints_dropped'] = filt.dropped
        out['runs'] += 1
        out['seeds'].append(seed)
        out['steps'] += res['steps']
        out['sim_span'] += res['sim_span']
        for k, v in res['counters'].items():
            out['counters'][k] = out['counters'].get(k, 0) + v
        if res['harness_error']:
            out['harness'].append('seed %d: %s' % (seed, res['harness_error']))
            continue
        nt = nontrivial(profile, res['counters'])
        if nt:
            out['digests'][res['digest']] = seed
        if want_samples and len(out['samples']) < want_samples and nt:
            out['samples'].append(sample_of(plan, res, seed))
        if res['violation'] is not None:
            out['violations'].append({'seed': seed, 'plan': plan, 'violation': res['violation'],
                                      'digest': res['digest']})
            if len(out['violations']) >= 3:
                break
        elif profile == 'torn' and seed % (240 if tier == 'quick' else 80) == 7 and time.time() < deadline:
            sweep_faults(plan, res, seed, out, deadline)
            if out['violations']:
                break
        elif profile == 'torn' and seed % (240 if tier == 'quick' else 80) == 127 % (240 if tier == 'quick' else 80) \
                and time.time() < deadline:
            sweep_truncations(plan, res, seed, out, deadline)
            if out['violations']:
                break
        elif profile in ('torn', 'stale') and seed % (160 if tier == 'quick' else 56) == 21 and time.time() < deadline:
            sweep_pairs(seed, tier, out, deadline)
            if out['violations']:
                break
    faulthandler.cancel_dump_traceback_later()
    return out


def sweep_truncations(plan, res, seed, out, deadline):
    """Every (strided) truncation offset of the pickles a seeded history has produced: the history is cut
    after its last op that wrote a pickle, then: truncate pickle `sel` at offset k, new process, cached
    parse of every entry, heal, repair check."""
    last = None
    written = {}
    for ev in res['events']:
        if ev[0] == 's' and ev[3] == 'replace' and ev[4] == 'pkl':
            last = ev[1]
            written[ev[1]] = True
    if last is None:
        return
    ops = plan['ops']
    combos = []
    for op in ops[:last + 1]:
        if op.get('k') == 'parse' and op.get('m') != 'nocache' and 'code' not in op:
            key = (op['f'], op['g'], op.get('c', 0))
            if key not in combos:
                combos.append(key)
    c = out['counters']
    c['sweep.truncation_histories'] = c.get('sweep.truncation_histories', 0) + 1
    for sel in range(min(3, len(combos))):
        for frac in range(0, 33):
            if time.time() > deadline:
                return
            cand = copy.deepcopy(plan)
            tail = [{'k': 'corrupt', 'c': combos[sel][2], 'sel': sel, 'how': 'truncate-frac', 'a': frac, 'b': 32, 'r': 0}]
            for p in range(cand['config'].get('nproc', 1)):
                tail.append({'k': 'restart', 'proc': p})
            for (f, g, cc) in combos[:3]:
                tail.append({'k': 'parse', 'p': 0, 'f': f, 'g': g, 'c': cc, 'm': 'cache', 't': [], 'quiet': True})
            tail.append({'k': 'heal'})
            for (f, g, cc) in combos[:2]:
                tail.append({'k': 'repaircheck', 'p': 0, 'f': f, 'g': g, 'c': cc})
            cand['ops'] = cand['ops'][:last + 1] + tail
            cand['config']['p_fault'] = 0.0
            try:
                r = replay_plan(cand)
            except BaseException as e:
                out['harness'].append('truncation sweep of seed %d: %r' % (seed, e))
                return
            c['sweep.truncation_points'] = c.get('sweep.truncation_points', 0) + 1
            out['runs'] += 1
            out['steps'] += r['steps']
            for k, v in r['counters'].items():
                if k.startswith('corrupt.') or k.startswith('probe.parse_with_damaged'):
                    c[k] = c.get(k, 0) + v
            if r['harness_error']:
                out['harness'].append('truncation sweep of seed %d: %s' % (seed, r['harness_error']))
                return
            out['digests'][r['digest']] = seed
            if r['violation'] is not None:
                out['violations'].append({'seed': seed, 'plan': cand, 'violation': r['violation'],
                                          'digest': r['digest']})
                return


def sweep_faults(plan, res, seed, out, deadline):
    """Systematic fault points inside one seeded history: re-execute the recorded plan once per
    (seam step of an op) x (crash before, crash after, EIO, EACCES, KeyboardInterrupt, torn write at 3 offsets), with
    every other decision as recorded.  Everything after the fault, including the epilogue's
    recovery/repair checks, is judged by the same oracle."""
    from . import cacheworld as cw
    steps = {}
    for ev in res['events']:
        if ev[0] == 's':
            steps.setdefault(ev[1], []).append((ev[3], ev[4]))      # op index -> [(kind, path class)]
    c = out['counters']
    c['sweep.histories'] = c.get('sweep.histories', 0) + 1
    for i, op in enumerate(plan['ops']):
        if op.get('k') != 'parse' or op.get('quiet') or i not in steps:
            continue
        tape = op.get('t', [])
        pos = 0
        for (kind, pclass) in steps[i]:
            j = pos
            pos += 1
            if j >= len(tape) or tape[j] != 0:
                if j < len(tape) and tape[j] == cw.D_TORN:
                    pos += 1
                continue
            variants = [[cw.D_CRASH_BEFORE], [cw.D_CRASH_AFTER]]
            if pclass not in ('src', 'other'):
                variants += [[cw.D_EIO], [cw.D_EACCES], [cw.D_INTR]]
            if kind == 'write':
                variants += [[cw.D_TORN, 0], [cw.D_TORN, 128], [cw.D_TORN, 255]]
            for var in variants:
                if time.time() > deadline:
                    return
                cand = copy.deepcopy(plan)
                t = cand['ops'][i]['t']
                t[j:j + 1] = var
                cand['config']['p_fault'] = 0.0
                try:
                    r = replay_plan(cand)
                except BaseException as e:
                    out['harness'].append('sweep of seed %d op %d step %d: %r' % (seed, i, j, e))
                    return
                c['sweep.fault_points'] = c.get('sweep.fault_points', 0) + 1
                out['runs'] += 1
                out['steps'] += r['steps']
                for k, v in r['counters'].items():
                    if k.startswith('fault.') or k.startswith('probe.repair') or k == 'op.crashed':
                        c[k] = c.get(k, 0) + v
                if r['harness_error']:
                    out['harness'].append('sweep of seed %d: %s' % (seed, r['harness_error']))
                    return
                out['digests'][r['digest']] = seed
                if r['violation'] is not None:
                    out['violations'].append({'seed': seed, 'plan': cand, 'violation': r['violation'],
                                              'digest': r['digest']})
                    return


def sample_of(plan, res, seed):
    ops = []
    for op in plan['ops'][:40]:
        o = {k: v for k, v in op.items() if k not in ('text', 'code', 't')}
        if 'text' in op:
            o['text'] = op['text'][:60]
        if 'code' in op:
            o['code'] = op['code'][:60]
        if op.get('t'):
            o['tape'] = [x for x in op['t']][:40]
        ops.append(o)
    return {'seed': seed, 'config': plan['config'], 'ops': ops, 'n_ops': len(plan['ops']),
            'event_digest': res['digest'], 'seam_steps': res['steps'],
            'first_events': [list(e) for e in res['events'][:25]]}


def search(prop, tier, base_seed, wall_s, workers=None):
    from . import pool
    profile = PROFILE_OF[prop]
    workers = workers or min(16, os.cpu_count() or 4)
    t0 = time.time()
    deadline = t0 + wall_s
    agg = {'runs': 0, 'counters': {}, 'digests': {}, 'violations': [], 'harness': [], 'steps': 0,
           'sim_span': 0.0, 'samples': [], 'first_seed': None, 'last_seed': None, 'lost_tasks': []}
    chunk = 40 if profile != 'diff' else 12
    base = base_seed * 1_000_000

    def tasks():
        lo = base
        while True:
            yield (profile, tier, list(range(lo, lo + chunk)), deadline, 1 if len(agg['samples']) < 3 else 0)
            lo += chunk

    def on_result(task, r, err):
        if err is not None:
            # a crashed child (e.g. the C unpickler on a damaged file) loses its chunk; it is not a verdict
            agg['lost_tasks'].append('seeds %d..%d: %s' % (task[2][0], task[2][-1], err[:300]))
            return
        agg['runs'] += r['runs']
        agg['steps'] += r['steps']
        agg['sim_span'] += r['sim_span']
        for k, v in r['counters'].items():
            agg['counters'][k] = agg['counters'].get(k, 0) + v
        agg['digests'].update(r['digests'])
        agg['violations'].extend(r['violations'])
        agg['harness'].extend(r['harness'])
        for smp in r['samples']:
            if len(agg['samples']) < 3:
                agg['samples'].append(smp)
        if r['seeds']:
            lo, hi = min(r['seeds']), max(r['seeds'])
            agg['first_seed'] = lo if agg['first_seed'] is None else min(agg['first_seed'], lo)
            agg['last_seed'] = hi if agg['last_seed'] is None else max(agg['last_seed'], hi)

    def keep_going():
        return time.time() < deadline and len(agg['violations']) < 6 and len(agg['harness']) < 20

    pool.fork_map(_worker, tasks(), workers, task_timeout=600, on_result=on_result, keep_going=keep_going)
    if len(agg['lost_tasks']) > max(3, agg['runs'] // 2000):
        agg['harness'].append('too many lost tasks: %s' % agg['lost_tasks'][:3])
    agg['wall'] = time.time() - t0
    return agg


# ---------------------------------------------------------------------------
# determinism self-test: same seed twice, fresh interpreters, different hash seeds
# ---------------------------------------------------------------------------
def digest_batch(profile, tier, seeds):
    """Run in *this* interpreter: [(seed, gen digest, replay digest)]."""
    out = []
    for s in seeds:
        plan, res = run_seed(profile, s, tier)
        res2 = replay_plan(plan)
        out.append((s, res['digest'], res2['digest'], res['violation'] and res['violation']['sig']))
    return out


def selftest(prop, tier, base_seed, n):
    profile = PROFILE_OF[prop]
    seeds = [base_seed * 1_000_000 + 500_000 + i for i in range(n)]
    procs = []
    for hs in ('0', '12345'):
        env = dict(os.environ, PYTHONHASHSEED=hs, VERIF_CHILD='1')
        procs.append(subprocess.Popen(
            [sys.executable, os.path.join(VERIF, 'check.py'), 'digest', prop, tier, ','.join(map(str, seeds))],
            env=env, stdout=subprocess.PIPE, stderr=subprocess.PIPE, text=True))
    outs = []
    for p in procs:
        try:
            o, e = p.communicate(timeout=600)
        except subprocess.TimeoutExpired:
            p.kill()
            return False, 'self-test child timed out'
        if p.returncode != 0:
            return False, 'self-test child failed: %s' % e[-800:]
        outs.append(json.loads(o.strip().splitlines()[-1]))
    a, b = outs
    for x, y in zip(a, b):
        if x != y:
            return False, 'event logs differ between two fresh interpreters for seed %s: %r vs %r' % (x[0], x, y)
        if x[1] != x[2]:
            return False, 'replay of the recorded plan diverges from the generating run for seed %s' % x[0]
    return True, '%d seeds x 2 interpreters (PYTHONHASHSEED 0 / 12345) x (generate, replay): identical digests' % n


# ---------------------------------------------------------------------------
def _confirm_and_shrink(task):
    """Runs in a forked child of the (clean) coordinator: replay the recorded plan; if the same
    violation shows again, shrink it and replay the result once more."""
    plan, sig = task
    from . import pool
    pool.limit_memory()
    res = replay_plan(plan)
    if not _same(res, sig):
        return {'confirmed': False, 'got': res['violation'], 'harness_error': res['harness_error']}
    small, nruns = shrink(plan, sig, budget_runs=400, budget_s=60)
    res2 = replay_plan(small)
    if not _same(res2, sig):
        small, res2 = plan, res
    return {'confirmed': True, 'plan': small, 'violation': res2['violation'], 'digest': res2['digest'],
            'shrink_runs': nruns}


def _replay_witness(path):
    with open(os.path.join(VERIF, path)) as f:
        rp = json.load(f)
    from . import pool
    pool.limit_memory()
    res = replay_plan(rp['plan'])
    return {'violation': res['violation'], 'harness_error': res['harness_error']}


def report_known_findings(prop, known, out=print):
    """Replay the witness plan of every recorded finding of this property (in a forked child: a
    witness may damage the process on purpose).  While it still fails: one KNOWN-FINDING line."""
    from . import pool
    n = 0
    for k in known.get('findings', []):
        if k.get('property') != prop or not k.get('witness'):
            continue
        box = {}
        pool.fork_map(_replay_witness, [k['witness']], 1, task_timeout=300,
                      on_result=lambda task, r, err: box.update(r=r, err=err))
        r = box.get('r')
        if r is not None and r['violation'] is not None:
            out('KNOWN-FINDING: property=%s %s' % (prop, k['what']))
            n += 1
        elif r is not None and r['harness_error'] is None:
            out('note: the witness of known finding %s no longer fails on this tree' % k.get('id'))
        else:
            out('HARNESS-ERROR: witness of known finding %s could not be replayed: %s' % (k.get('id'), box.get('err') or r))
    return n


def handle_violations(prop, agg, known, out=print):
    """Confirm, shrink, write replay files, print VIOLATION / KNOWN-FINDING lines.  Returns #new.

    A violation is only reported if replaying its recorded plan in a fresh process shows it again:
    the replay file is the evidence, and a worker that was damaged by what it unpickled must not be
    able to raise an alarm that does not replay."""
    from . import pool
    os.makedirs(os.path.join(VERIF, 'replays'), exist_ok=True)
    new = 0
    seen = set()
    known_hits = {}
    agg.setdefault('unconfirmed', [])
    for v in agg['violations']:
        sig = v['violation']['sig']
        k = match_known(prop, v['violation'], known)
        if k is not None:
            known_hits.setdefault(sig, (k, v))
            continue
        if sig in seen:
            continue
        box = {}

        def on_result(task, r, err):
            box['r'], box['err'] = r, err
        pool.fork_map(_confirm_and_shrink, [(v['plan'], sig)], 1, task_timeout=600, on_result=on_result)
        r = box.get('r')
        if r is None:
            # the confirming child died: report the unshrunk plan, it is still a replayable claim
            r = {'confirmed': True, 'plan': v['plan'], 'violation': v['violation'], 'digest': v['digest'],
                 'shrink_runs': 0}
        if not r['confirmed']:
            agg['unconfirmed'].append('seed %d: %s did not show again when its recorded plan was replayed in a '
                                      'fresh process (got %r)' % (v['seed'], sig, r.get('got')))
            continue
        seen.add(sig)
        path = os.path.join(VERIF, 'replays', '%s-%d.json' % (prop, v['seed']))
        with open(path, 'w') as f:
            json.dump({'optimize': bool(sys.flags.optimize), 'property': prop, 'profile': PROFILE_OF[prop], 'seed': v['seed'],
                       'violation': r['violation'], 'digest': r['digest'],
                       'shrink_runs': r['shrink_runs'], 'original_ops': len(v['plan']['ops']),
                       'plan': r['plan']}, f, indent=1)
        out('VIOLATION property=%s replay=%s' % (prop, path))
        out('  clause=%s detail=%s' % (v['violation']['clause'], str(r['violation']['detail'])[:300]))
        new += 1
    for sig, (k, v) in known_hits.items():
        out('KNOWN-FINDING: property=%s %s' % (prop, k['what']))
    if agg['unconfirmed']:
        agg['harness'].append('unconfirmed violations: %s' % agg['unconfirmed'][:3])
    return new


def evidence_path(prop):
    """/verif/evidence/<id>.json - unless another tree than /repo is under test (VERIF_REPO): evidence
    about a scratch worktree must never overwrite the evidence about /repo."""
    repo = os.path.abspath(os.environ.get('VERIF_REPO', '/repo'))
    if repo != '/repo':
        import tempfile
        return os.path.join(tempfile.gettempdir(), 'verif-evidence-%s-%d.json' % (prop, os.getuid()))
    os.makedirs(os.path.join(VERIF, 'evidence'), exist_ok=True)
    return os.path.join(VERIF, 'evidence', prop + '.json')


def write_evidence(prop, tier, base_seed, agg, st_msg, violations_new, extra=None):
    profile = PROFILE_OF[prop]
    wall = agg['wall']
    c = agg['counters']
    faults = {k: v for k, v in sorted(c.items()) if k.startswith('fault.') or k.startswith('corrupt.')}
    probes = {k: v for k, v in sorted(c.items()) if k.startswith('probe.') or k.startswith('cleanup.')}
    envs = {k: v for k, v in sorted(c.items()) if k.startswith('env.') or k.startswith('op.')}
    ev = {
        'property_id': prop, 'tier': tier, 'seed': base_seed, 'level': 'exploration',
        'coverage': {
            'evaluations': agg['runs'],
            'distinct_nontrivial': len(agg['digests']),
            'rule': RULES[profile],
            'samples': agg['samples'][:3],
            'seed_range': [agg['first_seed'], agg['last_seed']],
            'runs_per_hour': int(agg['runs'] / wall * 3600) if wall else 0,
            'seam_steps': agg['steps'],
            'simulated_seconds': round(agg['sim_span'], 1),
            'faults_fired': faults,
            'probes': probes,
            'ops': envs,
            'systematic_sweep': {k: v for k, v in sorted(c.items()) if k.startswith('sweep.')},
            'yields': c.get('yield', 0),
            'determinism_selftest': st_msg,
            'real_code': ['parso (all of it: cache, file_io, grammar, diff parser, tokenizer, parser)', 'pickle',
                          'pathlib', 'os.path', 'os.makedirs', 'io buffering'],
            'stubs': ['file system under /__simfs__ (in-memory, POSIX semantics)', 'time.time as seen by parso.cache',
                      'editor / janitor / corrupter / power-loss drivers', 'process death and restart',
                      'os.getpid', 'lock objects of the cache modules (stand-ins: a blocked acquire yields to the owner)'],
            'harness_errors': agg['harness'][:5],
            'lost_tasks': agg.get('lost_tasks', [])[:5],
        },
        'interpreter': {'optimize': bool(sys.flags.optimize), 'note': 'odd VERIF_SEED values run the whole check under python -O'},
        'assumptions': [
            'the non-caching parser is the reference (a bug common to both paths is invisible)',
            'SimFS models POSIX semantics of the calls parso makes; NFS/Windows semantics are not modelled',
            'pre-emption between simulated processes happens at file-system call granularity (complete for '
            'processes that share only the disk)',
        ],
        'wall_s': round(wall, 1),
        'violations': violations_new,
    }
    if extra:
        ev['coverage'].update(extra)
    with open(evidence_path(prop), 'w') as f:
        json.dump(ev, f, indent=1, default=str)


def sweep_pairs(seed, tier, out, deadline):
    """Systematic interleavings of two concurrent actors at file-system-call granularity: for the
    next scenario template, every point k at which actor A can be pre-empted in favour of B (B then runs
    to its end: all schedules with one pre-emption), and for every k every (strided) point j at which
    B hands back to A (two pre-emptions).  Fault-free; every run is judged by the ordinary oracle."""
    cw, gen = _lazy()
    template = gen.PAIR_TEMPLATES[(seed // 7) % len(gen.PAIR_TEMPLATES)]
    plan, ia, ib = gen.make_pair_plan(seed, template)
    c = out['counters']

    def run(cand, tag):
        try:
            r = replay_plan(cand)
        except BaseException as e:
            out['harness'].append('pair sweep of seed %d (%s): %r' % (seed, tag, e))
            return None
        out['runs'] += 1
        out['steps'] += r['steps']
        c['sweep.pair_schedules'] = c.get('sweep.pair_schedules', 0) + 1
        for k, v in r['counters'].items():
            if k.startswith('probe.') or k == 'yield':
                c[k] = c.get(k, 0) + v
        if r['harness_error']:
            out['harness'].append('pair sweep of seed %d (%s): %s' % (seed, tag, r['harness_error']))
            return None
        out['digests'][r['digest']] = seed
        if r['violation'] is not None:
            out['violations'].append({'seed': seed, 'plan': cand, 'violation': r['violation'], 'digest': r['digest']})
        return r

    base = run(copy.deepcopy(plan), 'sequential')
    if base is None or out['violations']:
        return
    steps = {}
    for ev in base['events']:
        if ev[0] == 's':
            steps[ev[1]] = steps.get(ev[1], 0) + 1
    na, nb = steps.get(ia, 0), steps.get(ib, 0)
    c['sweep.pair_scenarios'] = c.get('sweep.pair_scenarios', 0) + 1
    c['sweep.pair.' + template] = c.get('sweep.pair.' + template, 0) + 1
    b_is_proc = plan['ops'][ib].get('p') is not None
    stride = 1 if tier != 'quick' else 2
    for k in range(na):
        if time.time() > deadline:
            return
        cand = copy.deepcopy(plan)
        cand['ops'][ia]['t'] = [0] * k + [1]                      # at A's (k+1)-th call: start the next op (B)
        r = run(cand, 'k=%d' % k)
        if r is None or out['violations']:
            return
        if not b_is_proc:
            continue                                              # the editor's save is atomic
        nbk = nb + 6
        for j in range(0, nbk, stride):
            for d in (1, 2):                                      # (resume A is choice 1 or 2, depending on what can start)
                if time.time() > deadline:
                    return
                cand = copy.deepcopy(plan)
                cand['ops'][ia]['t'] = [0] * k + [1]
                cand['ops'][ib]['t'] = [0] * j + [d]
                r = run(cand, 'k=%d j=%d d=%d' % (k, j, d))
                if r is None or out['violations']:
                    return
