"""A tiny fork-per-task pool.  A task that crashes (segfault, OOM kill, hang) loses only itself."""
import os
import pickle
import resource
import select
import signal
import time

AS_LIMIT = 3 << 30


def limit_memory(limit=AS_LIMIT):
    """Damaged pickles can make the unpickler ask for gigabytes; turn that into MemoryError."""
    try:
        soft, hard = resource.getrlimit(resource.RLIMIT_AS)
        if hard != resource.RLIM_INFINITY and hard < limit:
            limit = hard
        resource.setrlimit(resource.RLIMIT_AS, (limit, hard))
    except (ValueError, OSError):
        pass


def fork_map(fn, tasks, workers, task_timeout=900, on_result=None, keep_going=lambda: True):
    """Run fn(task) for tasks (an iterator) in forked children, at most `workers` at a time.

    Calls on_result(task, result, error) in the parent as children finish; error is None or a string
    ('crashed: signal 9', 'timeout', ...).  Stops feeding new tasks once keep_going() is false.
    """
    tasks = iter(tasks)
    running = {}          # fd -> (pid, task, start, buffer)
    exhausted = False
    while True:
        while not exhausted and len(running) < workers and keep_going():
            try:
                task = next(tasks)
            except StopIteration:
                exhausted = True
                break
            r, w = os.pipe()
            pid = os.fork()
            if pid == 0:
                try:
                    os.close(r)
                    for fd in list(running):
                        try:
                            os.close(fd)
                        except OSError:
                            pass
                    signal.signal(signal.SIGINT, signal.SIG_DFL)
                    try:
                        res = ('ok', fn(task))
                    except BaseException as e:       # noqa
                        import traceback
                        res = ('err', '%r\n%s' % (e, traceback.format_exc()[-2000:]))
                    data = pickle.dumps(res, pickle.HIGHEST_PROTOCOL)
                    off = 0
                    while off < len(data):
                        off += os.write(w, data[off:off + 65536])
                    os.close(w)
                finally:
                    os._exit(0)
            os.close(w)
            running[r] = [pid, task, time.time(), []]
        if not running:
            if exhausted or not keep_going():
                break
            continue
        ready, _, _ = select.select(list(running), [], [], 1.0)
        now = time.time()
        for fd in ready:
            chunk = os.read(fd, 1 << 20)
            if chunk:
                running[fd][3].append(chunk)
                continue
            pid, task, start, buf = running.pop(fd)
            os.close(fd)
            _, status = os.waitpid(pid, 0)
            data = b''.join(buf)
            if data:
                try:
                    kind, val = pickle.loads(data)
                except Exception as e:
                    kind, val = 'err', 'unreadable result: %r' % (e,)
                if kind == 'ok':
                    on_result(task, val, None)
                else:
                    on_result(task, None, val)
            else:
                if os.WIFSIGNALED(status):
                    on_result(task, None, 'crashed: signal %d' % os.WTERMSIG(status))
                else:
                    on_result(task, None, 'exited without a result (status %d)' % status)
        for fd in list(running):
            pid, task, start, buf = running[fd]
            if now - start > task_timeout:
                try:
                    os.kill(pid, signal.SIGKILL)
                except OSError:
                    pass
                running.pop(fd)
                os.close(fd)
                os.waitpid(pid, 0)
                on_result(task, None, 'timeout after %ds' % task_timeout)
