"""Seeded plan generation for the cache world (profiles torn | stale | diff).

`make_plan(profile, seed, tier)` is a pure function of its arguments: one
random.Random(seed) decides the swarm configuration and the op list.  Decision
tapes of parse ops start empty and are filled during the generating execution.
"""
import random

from . import corpus
from . import cacheworld as cw

FILE_NAMES = ['src/a/mod.py', 'src/b/mod.py', 'src/a/util.py', 'src/mod.py', 'src/b/c/mod.py', 'src/flink.py']

# lines whose tree depends on the grammar version: a tree served for the wrong
# grammar can never compare equal by accident
VERSION_SENSITIVE = [
    "print(y := 3)\n", "async = 1\n", "def f(a, /, b): pass\n", "with (a as b, c as d): pass\n",
    "try:\n    pass\nexcept* E:\n    pass\n", "type X = int\n", "match x:\n    case 1: pass\n",
    "x = f'{a!r:>{w}}'\n", "print 'x'\n", "x = 1_000\n", "def f[T](): pass\n", "await = 3\n",
    "x = t'{a}'\n", "y = rt'''{b!r}'''\n",
]


def _small_text(rng, f, n):
    """Small file content, unique per (file, version number)."""
    parts = []
    r = rng.random()
    if r < 0.015:
        parts.append(corpus.outlier_text(rng))
    elif r < 0.5:
        parts.append(rng.choice(corpus.SNIPPETS))
    elif r < 0.7:
        parts.append(corpus.window(rng, 6))
    elif r < 0.8:
        parts.append(corpus.gen_block(rng, rng.randint(1, 6)))
    if rng.random() < 0.5:
        parts.append(rng.choice(VERSION_SENSITIVE))
    marker = 'v_%d_%d = %d\n' % (f, n, n)
    parts.insert(rng.randint(0, len(parts)), marker)
    return ''.join(parts)


def _encode_variant(rng, text):
    """Mostly utf-8; sometimes bytes that exercise the decoding rules."""
    r = rng.random()
    if r < 0.9:
        return {'text': text}
    if r < 0.94:
        return {'text': '\ufeff' + text}
    if r < 0.97:
        return {'text': '# -*- coding: latin-1 -*-\n' + text + "s = '\xe4\xf6'\n", 'enc': 'latin-1'}
    return {'text': text + "s = '\xe4\xff'\n", 'enc': 'latin-1'}      # invalid utf-8, no coding line


def _common_config(rng, profile):
    nfiles = rng.choice([1, 2, 2, 3]) if profile != 'stale' else rng.choice([1, 2, 3, 4])
    files = FILE_NAMES[:]
    rng.shuffle(files)
    files = files[:nfiles]
    if profile == 'stale' and rng.random() < 0.08:
        # distinct files whose names are near-aliases of each other: Unicode normalisation forms
        # (legal and distinct on Linux), letter case, a trailing blank
        pair = rng.choice([('src/caf\u00e9.py', 'src/cafe\u0301.py'), ('src/Mod.py', 'src/mod.py'),
                           ('src/mod.py', 'src/mod.py '), ('src/\u212b.py', 'src/\u00c5.py')])
        files = list(pair) + [f for f in files if f not in pair][:1]
    elif profile == 'stale' and rng.random() < 0.12:
        # path aliasing: a `..` path through a symlinked directory next to its lexical twin
        files = [f for f in files if f not in ('src/a/mod.py', 'src/mod.py')][:2] + ['src/link/../mod.py', 'src/mod.py']
    if profile != 'diff' and rng.random() < 0.06:
        # a file name that is not valid UTF-8 (as os.fsdecode() hands it over: with a lone surrogate)
        files[0] = 'src/caf\udce9.py'
    ng = rng.choice([1, 1, 2, 3])
    grammars = rng.sample(corpus.VERSIONS, ng)
    if rng.random() < 0.12:
        # versions whose grammar files are byte-identical (they share the cache key upstream)
        grammars = list(rng.choice([('3.13', '3.14'), ('3.10', '3.11')]))
    if profile == 'stale' and rng.random() < 0.15:
        grammars.append(rng.choice(grammars) + '+c')       # a custom grammar of the same version
    cfg = {
        'files': files,
        'grammars': grammars,
        'cdirs': rng.choice([1, 1, 2]),
        'nproc': 1,
        'gran': rng.choice([0.0, 0.0, 1.0, 1.0, 2.0, 0.01]),
        'tick': rng.choice([0.0, 0.001, 0.001, 0.05, 0.4]),
        'size_trigger': rng.choice([600, 600, 1, 2, 3, 5]),
        'min_survival': rng.choice([600, 600, 0, 5]),
        'bufsize': rng.choice([8192, 8192, 64, 1 << 16]),
        'max_write': rng.choice([0, 0, 0, 16, 100, 1000]),
        'max_read': rng.choice([0, 0, 0, 16, 100, 1000]),
        'warmup': rng.choice([0.0, 0.5, 3.0, 100.0]),
        # clock skew between the file system of the sources and the local clock / cache file system
        'src_skew': rng.choice([0.0, 0.0, 0.0, 0.0, 300.0, -300.0, 86400.0, -86400.0]) if profile != 'diff' else 0.0,
    }
    return cfg


def _parse_op(rng, cfg, modes, p=None):
    op = {'k': 'parse', 'p': rng.randrange(cfg['nproc']) if p is None else p,
          'f': rng.randrange(len(cfg['files'])), 'g': rng.randrange(len(cfg['grammars'])),
          'c': rng.randrange(cfg['cdirs']) if rng.random() < 0.92 else -1,
          'm': rng.choice(modes), 't': []}
    r = rng.random()
    if r < 0.15:
        op['strpath'] = True
    elif r < 0.25:
        op['fio'] = True
    elif r < 0.33:
        op['givecode'] = rng.choice(['bytes', 'str'])      # code= and path= together (no yields inside)
    elif r < 0.39:
        op['direntry'] = rng.choice([True, True, 'new'])   # an os.DirEntry as path (kept from an earlier listing, or fresh)
    return op


def _edit_ops(rng, cfg, state, f=None, inflight_bias=False):
    """One editor save = 1 op (atomic) or 2 ops (truncate, write in place)."""
    if f is None:
        f = rng.randrange(len(cfg['files']))
    state['n'][f] = state['n'].get(f, 0) + 1
    hist = state.setdefault('hist', {}).setdefault(f, [])
    if hist and rng.random() < 0.2:
        enc = dict(rng.choice(hist[-3:]))                  # undo: exactly a recent earlier content of this file
    else:
        text = _small_text(rng, f, state['n'][f])
        enc = _encode_variant(rng, text)
        hist.append(dict(enc))
    dt = rng.choice([0.0, 0.0, 0.001, 0.3, 1.0, 1.0, 2.5, 100.0])
    r = rng.random()
    mt = None
    if r < 0.12:
        mt = -rng.choice([0.5, 1.0, 3.0, 100.0, 1e5, 40 * 86400.0])     # mtime-preserving copy of an older file
    elif r < 0.17:
        mt = 'same'                                        # touch -r: content changes, mtime does not
    elif r < 0.19:
        mt = 'epoch'
    op = dict({'k': 'edit', 'f': f, 'dt': dt, 'mt': mt, 'how': 'atomic'}, **enc)
    r = rng.random()
    if r < 0.25:
        op['how'] = 'inplace'
        return [{'k': 'trunc', 'f': f, 'dt': dt, 'how': 'inplace'}, dict(op, dt=rng.choice([0.0, 0.001, 1.0]))]
    if r < 0.35:                         # editors that unlink and re-create
        return [{'k': 'rmfile', 'f': f}, dict(op, dt=rng.choice([0.0, 0.0, 0.001, 1.0]))]
    return [op]


CLOCK_STEPS = [0.001, 0.5, 1.0, 1.0, 5.0, 700.0, 700.0, 90000.0, 31 * cw.DAY, -0.5, -5.0, -1000.0]


def make_stale(rng, tier):
    cfg = _common_config(rng, 'stale')
    cfg['nproc'] = rng.choice([1, 1, 1, 2, 2, 2, 2, 3])
    cfg['p_yield'] = rng.choice([0.0, 0.03, 0.1, 0.25])
    cfg['p_fault'] = 0.0
    state = {'n': {}}
    init = []
    for f in range(len(cfg['files'])):
        state['n'][f] = 0
        init.append(_encode_variant(rng, _small_text(rng, f, 0)) if rng.random() < 0.9 else None)
    modes = ['cache'] * 5 + ['cache+diff'] * 3 + ['nocache', 'diff']
    cfg['threads_share_process'] = cfg['nproc'] > 1 and rng.random() < 0.25
    if cfg['threads_share_process']:
        modes = ['cache'] * 6 + ['nocache']      # diff_cache mutates the shared module: not for concurrent threads
        cfg['p_yield'] = rng.choice([0.05, 0.1, 0.25])
    ops = []
    if rng.random() < 0.04:
        # the in-memory cache at (and around) its default size trigger
        cfg['size_trigger'] = 600
        cfg['min_survival'] = rng.choice([600, 600, 5])
        ops.append({'k': 'bulk', 'p': 0, 'g': 0, 'c': 0, 'n': rng.choice([590, 598, 599, 600, 601, 640])})
        if rng.random() < 0.5:
            ops.append({'k': 'clock', 'dt': rng.choice([5.0, 700.0])})
    nops = rng.randint(6, 30 if tier == 'quick' else 60)
    while len(ops) < nops:
        r = rng.random()
        if r < 0.12:
            # an editing session on one file (language server): parse, parse again, save, parse, undo/save, parse
            base = _parse_op(rng, cfg, ['cache', 'cache+diff', 'cache+diff'])
            for step in range(rng.randint(2, 5)):
                ops.append(dict(base, t=[]))
                if rng.random() < 0.5:
                    ops.append(dict(base, t=[]))
                if rng.random() < 0.25:
                    ops.append(_parse_op(rng, cfg, modes))                 # some other file in between
                if rng.random() < 0.2:
                    ops.append({'k': 'clock', 'dt': rng.choice([1.0, 5.0, 700.0])})
                if rng.random() < 0.2:
                    ops.append({'k': 'restart', 'proc': base['p']})        # the language server is restarted
                    ops.append(dict(base, t=[]))
                if rng.random() < 0.12:
                    # the user clears the cache in the middle of the session; the server goes on
                    ops.append({'k': 'clearcache', 'p': base['p'], 'c': base['c'] if base['c'] >= 0 else 0,
                                'mem': True, 'api': rng.random() < 0.7, 't': []})
                ops.extend(_edit_ops(rng, cfg, state, f=base['f']))
            ops.append(dict(base, t=[]))
        elif r < 0.5:
            op = _parse_op(rng, cfg, modes)
            ops.append(op)
            if rng.random() < 0.3:            # an editor save likely to land inside this parse
                ops.extend(_edit_ops(rng, cfg, state, f=op['f']))
        elif r < 0.72:
            ops.extend(_edit_ops(rng, cfg, state))
        elif r < 0.80:
            ops.append({'k': 'restart', 'proc': rng.randrange(cfg['nproc'])})
        elif r < 0.89:
            ops.append({'k': 'clock', 'dt': rng.choice(CLOCK_STEPS)})
        elif r < 0.92:
            ops.append({'k': 'touch', 'f': rng.randrange(len(cfg['files'])), 'dt': rng.choice([0.0, 1.0, 2.5])})
        elif r < 0.95:
            if rng.random() < 0.5:
                ops.append({'k': 'rmcache', 'c': rng.randrange(cfg['cdirs'])})
            else:
                # the same, entry by entry, by one of the processes (clear_cache / rm -rf)
                ops.append({'k': 'clearcache', 'p': rng.randrange(cfg['nproc']), 'c': rng.randrange(cfg['cdirs']),
                            'mem': rng.random() < 0.7, 'api': rng.random() < 0.5, 't': []})
        elif r < 0.97:
            ops.append({'k': 'rmfile', 'f': rng.randrange(len(cfg['files']))})
        else:
            ops.append({'k': 'usednames', 'p': rng.randrange(cfg['nproc']), 'f': rng.randrange(len(cfg['files'])),
                        'g': rng.randrange(len(cfg['grammars']))})
    return {'sim': 'cacheworld', 'profile': 'stale', 'config': cfg, 'init': init, 'ops': ops}


CORRUPTIONS = ['empty', 'truncate', 'truncate', 'truncate', 'overwrite', 'overwrite', 'zero', 'garbage',
               'text', 'other-object', 'splice', 'append', 'attr', 'attr', 'shape', 'shape']
ALL_FAULTS = [cw.D_CRASH_BEFORE, cw.D_CRASH_AFTER, cw.D_TORN, cw.D_EIO, cw.D_ENOSPC, cw.D_EACCES,
              cw.D_EMFILE, cw.D_ENOENT, cw.D_MEMERR, cw.D_INTR]


def make_torn(rng, tier):
    cfg = _common_config(rng, 'torn')
    cfg['nproc'] = rng.choice([1, 1, 2, 2, 2, 2, 3])
    cfg['p_yield'] = rng.choice([0.0, 0.05, 0.15, 0.3]) if cfg['nproc'] > 1 else rng.choice([0.0, 0.05])
    cfg['p_fault'] = rng.choice([0.0, 0.01, 0.03, 0.08])
    k = rng.randint(1, len(ALL_FAULTS))
    cfg['fault_kinds'] = sorted(rng.sample(ALL_FAULTS, k))
    cfg['fault_src_crash'] = rng.random() < 0.3
    cfg['threads_share_process'] = cfg['nproc'] > 1 and rng.random() < 0.25
    cfg['warn_error'] = rng.random() < 0.1
    state = {'n': {}}
    init = []
    for f in range(len(cfg['files'])):
        state['n'][f] = 0
        init.append(_encode_variant(rng, _small_text(rng, f, 0)))
    modes = ['cache'] * 6 + ['cache+diff'] * 2 + ['nocache']
    if cfg['threads_share_process']:
        modes = ['cache'] * 6 + ['nocache']      # diff_cache mutates the shared module: not for concurrent threads
    enabled = set(rng.sample(['corrupt', 'chmod', 'rmcache', 'age', 'diskfull', 'tmpfile', 'powerloss', 'edit'],
                             rng.randint(2, 8)))
    ops = []
    nops = rng.randint(5, 25 if tier == 'quick' else 50)
    while len(ops) < nops:
        r = rng.random()
        c = rng.randrange(cfg['cdirs']) if rng.random() < 0.9 else -1
        if r < 0.06 and not cfg['threads_share_process']:
            # an editing session under faults: one process, one file, cache + diff_cache, save / parse /
            # undo / parse ... - whatever a failed or interrupted save leaves in memory meets the next edit
            base = dict(_parse_op(rng, cfg, ['cache+diff']), t=[])
            ops.append(dict(base, t=[]))
            for step in range(rng.randint(2, 5)):
                ops.extend(_edit_ops(rng, cfg, state, f=base['f'])[-1:])
                ops[-1].update({'how': 'atomic', 'dt': rng.choice([1.0, 2.5, 5.0])})
                ops.append(dict(base, t=[]))
                if rng.random() < 0.3:
                    ops.append(dict(base, t=[]))
        elif r < 0.10 and 'corrupt' in enabled and not cfg['threads_share_process']:
            # an entry that is damaged AND outdated when a new process asks for it with cache + diff_cache:
            # parse, damage the pickle, save the file, restart, parse again, edit, parse
            base = dict(_parse_op(rng, cfg, ['cache']), t=[])
            ops.append(dict(base, t=[]))
            ops.append({'k': 'corrupt', 'c': base['c'], 'sel': rng.randrange(8), 'how': rng.choice(CORRUPTIONS + ['shape'] * 8),
                        'a': rng.randrange(1 << 16), 'b': rng.randrange(1 << 16), 'r': rng.randrange(1 << 30)})
            ops.extend(_edit_ops(rng, cfg, state, f=base['f'])[-1:])
            ops[-1].update({'how': 'atomic', 'dt': 5.0})
            ops.append({'k': 'restart', 'proc': base['p']})
            again = dict(base, m=rng.choice(['cache+diff', 'cache+diff', 'cache']), t=[])
            ops.append(dict(again, t=[]))
            ops.extend(_edit_ops(rng, cfg, state, f=base['f'])[-1:])
            ops[-1].update({'how': 'atomic', 'dt': 2.5})
            ops.append(dict(again, t=[]))
        elif r < 0.5:
            op = _parse_op(rng, cfg, modes)
            ops.append(op)
            if cfg['nproc'] > 1 and rng.random() < 0.4:
                # the other process works on the same entry at the same time
                other = dict(_parse_op(rng, cfg, modes, p=(op['p'] + 1) % cfg['nproc']), g=op['g'], c=op['c'])
                if rng.random() < 0.6:
                    other['f'] = op['f']             # ... or on another entry of the same directory
                ops.append(other)
                if cfg['nproc'] > 2 and rng.random() < 0.6:
                    ops.append(dict(other, p=(op['p'] + 2) % cfg['nproc'], t=[]))     # ... and a third one
        elif r < 0.62 and 'corrupt' in enabled:
            ops.append({'k': 'corrupt', 'c': c, 'sel': rng.randrange(8), 'how': rng.choice(CORRUPTIONS),
                        'a': rng.randrange(1 << 16), 'b': rng.randrange(1 << 16), 'r': rng.randrange(1 << 30)})
        elif r < 0.70 and 'edit' in enabled:
            ops.extend(_edit_ops(rng, cfg, state))
        elif r < 0.76:
            ops.append({'k': 'restart', 'proc': rng.randrange(cfg['nproc'])})
        elif r < 0.80:
            ops.append({'k': 'clock', 'dt': rng.choice(CLOCK_STEPS)})
        elif r < 0.84 and 'chmod' in enabled:
            ops.append({'k': 'chmod', 'c': c, 'which': rng.choice(['root', 'root', 'ver']),
                        'mode': rng.choice([0o555, 0o555, 0o500, 0o755]), 'create': rng.random() < 0.5})
        elif r < 0.87 and 'rmcache' in enabled:
            if rng.random() < 0.6:
                ops.append({'k': rng.choice(['rmcache', 'rmver']), 'c': c})
            else:
                ops.append({'k': 'clearcache', 'p': rng.randrange(cfg['nproc']), 'c': c, 'mem': rng.random() < 0.7,
                            'api': rng.random() < 0.5, 't': []})
        elif r < 0.885 and 'age' in enabled and cfg['nproc'] > 1 and len(cfg['files']) > 1:
            # a due clean-up over several aged entries while the other process uses one of them:
            # both files cached, everything (and the lock) aged, then p0 saves file a (which starts the
            # clean-up) and p1 loads or re-saves file b at the same time
            a, b = rng.sample(range(len(cfg['files'])), 2)
            g = rng.randrange(len(cfg['grammars']))
            base = {'k': 'parse', 'g': g, 'c': c, 'm': 'cache'}
            ops.append(dict(base, p=0, f=a, t=[]))
            ops.append(dict(base, p=0, f=b, t=[]))
            ops.append({'k': 'age', 'c': c, 'sel': None, 'days': rng.choice([30.5, 31, 45, 400]),
                        'lock': rng.choice([1.01, 2, 40])})
            ops.extend(_edit_ops(rng, cfg, state, f=a)[-1:])
            ops[-1].update({'how': 'atomic', 'mt': None, 'dt': 5.0, 'noskew': True})
            if rng.random() < 0.6:
                ops.extend(_edit_ops(rng, cfg, state, f=b)[-1:])
                ops[-1].update({'how': 'atomic', 'mt': None, 'dt': 1.0, 'noskew': True})
            ops.append(dict(base, p=0, f=a, t=[]))
            ops.append(dict(base, p=1, f=b, t=[]))
        elif r < 0.92 and 'age' in enabled:
            ops.append({'k': 'age', 'c': c, 'sel': rng.choice([None, rng.randrange(8)]),
                        'days': rng.choice([1, 29, 29.99, 30.01, 31, 400]),
                        'lock': rng.choice([None, 0.5, 1.01, 2, 40])})
            if rng.random() < 0.5:
                ops.append({'k': 'rmlock', 'c': c})
        elif r < 0.94 and 'diskfull' in enabled:
            ops.append({'k': 'diskfull', 'free': rng.choice([0, 0, 10, 300, None])})
        elif r < 0.96 and 'tmpfile' in enabled:
            ops.append({'k': rng.choice(['tmpfile', 'tmpfile', 'sibling', 'sibling']), 'c': c, 'r': rng.randrange(1 << 30),
                        'dv': rng.choice([-1, -1, 1, -5]), 'saved_days': rng.choice([0, 0, 3, 31, 45, 400]),
                        'read_days': rng.choice([0, 0.5, 2, 29, 31, 400])})
        elif r < 0.98 and 'powerloss' in enabled:
            ops.append({'k': rng.choice(['powerloss', 'powerloss', 'sync']), 't': []})
    # epilogue: faults stop; bounded recovery and repair
    ops.append({'k': 'heal', 'keep_procs': True})
    combos = []
    for op in ops:
        if op['k'] == 'parse' and op['m'] != 'nocache':
            key = (op['f'], op['g'], op['c'])
            if key not in combos:
                combos.append(key)
    rng.shuffle(combos)
    for (f, g, c) in combos[:3]:
        p = rng.randrange(cfg['nproc'])
        if rng.random() < 0.4:
            # the surviving process itself must be able to save again once faults have stopped
            ops.extend(_edit_ops(rng, dict(cfg), state, f=f)[-1:])
            ops[-1].update({'how': 'atomic', 'mt': None, 'dt': 5.0, 'noskew': True})
            ops.append({'k': 'repaircheck', 'p': p, 'f': f, 'g': g, 'c': c, 'inproc': True})
        else:
            ops.append({'k': 'repaircheck', 'p': p, 'f': f, 'g': g, 'c': c})
    return {'sim': 'cacheworld', 'profile': 'torn', 'config': cfg, 'init': init, 'ops': ops}


def make_diff(rng, tier):
    cfg = _common_config(rng, 'diff')
    cfg['nproc'] = 1
    cfg['p_yield'] = 0.0
    cfg['p_fault'] = 0.0
    cfg['gran'] = rng.choice([0.0, 1.0])
    cfg['debug_diff'] = rng.random() < 0.33
    cfg['warn_error'] = rng.random() < 0.15
    cfg['files'] = cfg['files'][:rng.choice([1, 1, 2])]
    cfg['grammars'] = cfg['grammars'][:rng.choice([1, 1, 2])]
    fsmode = rng.random() < 0.3
    max_lines = rng.choice([8, 20, 40, 60]) if tier == 'quick' else rng.choice([8, 20, 40, 60, 150, 400])
    nfiles = len(cfg['files'])
    texts = {}
    hist = {}
    init = []
    style = rng.choice([0.0, 0.5, 0.9, 1.0])      # share of local, syntax-preserving edits
    for f in range(nfiles):
        t = corpus.gen_program(rng, rng.randint(4, max_lines)) if rng.random() < style else corpus.base_text(rng, max_lines)
        texts[f] = t
        hist[f] = [t]
        init.append({'text': t} if fsmode else None)
    ops = []
    nedits = rng.randint(4, 25 if tier == 'quick' else 40)
    ro = False
    mode = 'cache+diff' if fsmode else rng.choice(['diff', 'diff', 'diff', 'cache+diff'])
    for f in range(nfiles):
        for g in range(len(cfg['grammars'])):
            ops.append(_diff_parse(cfg, fsmode, f, g, mode, texts[f]))
    for _ in range(nedits):
        f = rng.randrange(nfiles)
        g = rng.randrange(len(cfg['grammars']))
        r = rng.random()
        if r < 0.08:
            ops.append({'k': 'usednames', 'p': 0, 'f': f, 'g': g})
        elif r < 0.12:
            ops.append({'k': 'restart', 'proc': 0})
            if not fsmode:
                ops.append(_diff_parse(cfg, fsmode, f, g, mode, texts[f]))
        elif r < 0.16:
            ops.append({'k': 'clock', 'dt': rng.choice([1.0, 700.0, 90000.0])})
        elif fsmode and r < (0.40 if cfg['warn_error'] else 0.22):
            # the cache location becomes read-only / writable again: saves fail with a warning
            ro = not ro
            ops.append({'k': 'chmod', 'c': 0, 'which': 'ver', 'mode': 0o555 if ro else 0o755, 'create': False})
        if not fsmode and rng.random() < 0.07:
            # the (possibly non-existent) path of the module stops / starts being stat-able
            ops.append({'k': 'srcblock', 'f': f, 'how': rng.choice(['notdir', 'noperm', 'ok', 'ok'])})
        if rng.random() < 0.1:
            new = corpus.base_text(rng, max_lines)               # replace the whole file
        elif rng.random() < style:
            new = corpus.edit_structured(rng, texts[f], hist[f])
        else:
            new = corpus.edit(rng, texts[f], hist[f])
        texts[f] = new
        hist[f].append(new)
        if fsmode:
            ops.append({'k': 'edit', 'f': f, 'dt': rng.choice([1.0, 2.5, 100.0]) + cfg['gran'], 'mt': None,
                        'how': 'atomic', 'text': new})
        ops.append(_diff_parse(cfg, fsmode, f, g, mode, new))
    return {'sim': 'cacheworld', 'profile': 'diff', 'config': cfg, 'init': init, 'ops': ops}


def _diff_parse(cfg, fsmode, f, g, mode, text):
    op = {'k': 'parse', 'p': 0, 'f': f, 'g': g, 'c': 0, 'm': mode, 't': []}
    if not fsmode:
        op['code'] = text
        if len(text) % 5 == 0:
            op['as_bytes'] = True          # the same text handed over as utf-8 bytes
    return op


def make_diff_sweep(rng, idx):
    """Systematic part of the C04 search: for the next snippet S in enumeration order the history
    S -> e(S) -> S -> e'(S) -> S -> ... over every elementary edit kind, each applied at (up to four of)
    the lines in turn (edit and undo), under one grammar version, plus a few seeded compound steps."""
    snips = corpus.SNIPPETS
    S = corpus.restyle(snips[idx % len(snips)], rng.choice(['\n', '\n', '\n', '\r', '\r\n']))
    k = idx // len(snips)
    # One plan per snippet covers EVERY edit kind: short snippets at every line, longer ones at four
    # seeded lines per kind (other lines in the next pass over the corpus).  Until round 9 a plan was one
    # (snippet, kind) pair at all lines, kinds in the outer loop: a quick run covered all snippets under the
    # first four kinds and nothing under the others.
    kind = 'all'
    version = corpus.VERSIONS[(k + idx) % len(corpus.VERSIONS)]
    nl = max(1, len(corpus.splitlines_cr(S)))
    cfg = {'files': ['src/mod.py'], 'grammars': [version], 'cdirs': 1, 'nproc': 1, 'gran': 0.0, 'tick': 0.0,
           'size_trigger': 600, 'min_survival': 600, 'bufsize': 8192, 'max_write': 0, 'max_read': 0, 'warmup': 3.0,
           'p_yield': 0.0, 'p_fault': 0.0, 'debug_diff': False, 'sweep': [idx % len(snips), kind]}
    texts = [S]
    for kd in corpus.ELEMENTARY:
        lines = list(range(nl)) if nl <= 4 else sorted(rng.sample(range(nl), 4))
        for i in lines:
            texts.append(corpus.elementary(S, i, kd))
            texts.append(S)
    cur = texts[-2] if len(texts) > 1 else S
    for _ in range(3):
        cur = corpus.elementary(cur, rng.randrange(64), rng.choice(corpus.ELEMENTARY))
        texts.append(cur)
    texts.append(S)
    ops = [_diff_parse(cfg, False, 0, 0, 'diff', t) for t in texts]
    if rng.random() < 0.3:
        ops.insert(2, {'k': 'usednames', 'p': 0, 'f': 0, 'g': 0})
    return {'sim': 'cacheworld', 'profile': 'diff', 'config': cfg, 'init': [None], 'ops': ops}


MAKERS = {'stale': make_stale, 'torn': make_torn, 'diff': make_diff}


def make_plan(profile, seed, tier='quick'):
    rng = random.Random('%s/%d' % (profile, seed))
    if profile == 'diff' and seed % 3 == 0:
        plan = make_diff_sweep(rng, seed // 3)
    else:
        plan = MAKERS[profile](rng, tier)
    plan['seed'] = seed
    plan['tier'] = tier
    return plan


# ---------------------------------------------------------------------------
# systematic two-actor scenarios (enumerated by runner.sweep_pairs)
# ---------------------------------------------------------------------------
PAIR_TEMPLATES = ['two-savers', 'saver-loader', 'saver-cleanup', 'clear-saver', 'parse-edit', 'loader-edit']


def make_pair_plan(seed, template):
    """A small fault-free scenario around one pair (A, B) of concurrent actors: ops before the pair
    set the stage, the pair is ops[ia], ops[ib]; runner.sweep_pairs enumerates where A is pre-empted
    (and where B is, in turn).  Returns (plan, ia, ib)."""
    rng = random.Random('pair/%s/%d' % (template, seed))
    cfg = _common_config(rng, 'torn')
    cfg.update({'nproc': 2, 'p_yield': 0.0, 'p_fault': 0.0, 'fault_kinds': [], 'fault_src_crash': False,
                'threads_share_process': rng.random() < 0.2 and template in ('two-savers', 'saver-loader'),
                'warn_error': False, 'pair': template})
    if len(cfg['files']) < 2:
        cfg['files'] = (cfg['files'] + [f for f in FILE_NAMES if f not in cfg['files']])[:2]
    cfg['cdirs'] = 1
    state = {'n': {}}
    init = []
    for f in range(len(cfg['files'])):
        state['n'][f] = 0
        init.append({'text': _small_text(rng, f, 0)})
    mode = rng.choice(['cache', 'cache', 'cache+diff']) if not cfg['threads_share_process'] else 'cache'
    g = rng.randrange(len(cfg['grammars']))
    P = lambda p, f, m=mode: {'k': 'parse', 'p': p, 'f': f, 'g': g, 'c': 0, 'm': m, 't': []}

    def save(f, dt=5.0):
        op = _edit_ops(rng, cfg, state, f=f)[-1]
        op.update({'how': 'atomic', 'mt': None, 'dt': dt, 'noskew': True})
        return op
    ops = []
    if template == 'two-savers':
        a, b = P(0, 0), P(1, 0)
    elif template == 'saver-loader':
        ops += [P(0, 0), save(0)]
        if rng.random() < 0.5:
            ops.append(P(1, 0))                   # the other process has the old version in memory
        a, b = P(0, 0), P(1, 0)
    elif template == 'saver-cleanup':
        ops += [P(0, 0), P(0, 1), {'k': 'age', 'c': 0, 'sel': None, 'days': rng.choice([31, 45]), 'lock': rng.choice([1.01, 40])},
                save(0)]
        if rng.random() < 0.5:
            ops.append(save(1, dt=1.0))
        a, b = P(0, 0), P(1, 1)
    elif template == 'clear-saver':
        ops += [P(0, 0), P(0, 1), save(0)]
        a, b = {'k': 'clearcache', 'p': 0, 'c': 0, 'mem': rng.random() < 0.5, 't': []}, P(1, 0)
    elif template == 'parse-edit':
        # a miss (read + save) with the editor's save somewhere inside
        ops += [P(0, 0), save(0)] if rng.random() < 0.5 else []
        a, b = P(0, 0), save(0, dt=rng.choice([0.0, 0.001, 1.0, 2.5]))
        if rng.random() < 0.3:
            b['mt'] = rng.choice(['same', -1.0, -100.0])
    else:  # loader-edit: a hit (memory or disk) with the editor's save somewhere inside
        ops += [P(0, 0)]
        if rng.random() < 0.5:
            ops.append({'k': 'restart', 'proc': 0})
        a, b = P(0, 0), save(0, dt=rng.choice([0.0, 0.001, 1.0, 2.5]))
    ia = len(ops)
    ops += [a, b]
    ib = ia + 1
    # barriers: the pair is finished before the epilogue starts
    for q in (0, 1):
        ops.append({'k': 'usednames', 'p': q, 'f': 0, 'g': g})
    ops.append({'k': 'heal', 'keep_procs': True})
    for f in (0, 1):
        ops.append({'k': 'repaircheck', 'p': f, 'f': f, 'g': g, 'c': 0})
    return {'sim': 'cacheworld', 'profile': 'torn', 'config': cfg, 'init': init, 'ops': ops, 'seed': seed}, ia, ib
