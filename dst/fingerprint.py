"""Canonical, identity- and order-insensitive digest of parso's process-wide state.

Everything reachable from parso module globals, class attributes (rule registries), function
defaults, loaded grammars, token collections, parser_cache and generated tables.  Automata are
renumbered canonically (BFS over sorted labels) because table order depends on object addresses.
Objects whose class lives outside parso are represented by their type name only.
"""
import sys, os, re, enum, types, hashlib, json
import parso

def parso_modules():
    return sorted((n, m) for n, m in sys.modules.items() if (n == 'parso' or n.startswith('parso.')) and m is not None)

def is_parso_class(cls):
    return getattr(cls, '__module__', '').split('.')[0] == 'parso'

class Canon:
    def __init__(self):
        self.ids = {}      # id(obj) -> canonical number (DFS discovery order)
        self.keep = []     # keep objects alive
        self.out = []      # flat token stream
    def atom(self, *a): self.out.append(a)
    def visit(self, o, depth=0):
        t = type(o)
        if o is None or t in (bool, int, float, str, bytes, complex):
            self.atom('v', t.__name__, o); return
        if isinstance(o, enum.Enum):
            self.atom('enum', type(o).__qualname__, o.name)
            return
        if isinstance(o, re.Pattern):
            self.atom('re', o.pattern, o.flags); return
        if isinstance(o, (types.FunctionType, types.BuiltinFunctionType, types.MethodType, staticmethod, classmethod, property)):
            f = getattr(o, '__func__', o)
            self.atom('fn', getattr(f, '__module__', None), getattr(f, '__qualname__', repr(t)))
            if isinstance(f, types.FunctionType) and getattr(f, '__module__', '').startswith('parso'):
                if id(f) not in self.ids:
                    self.ids[id(f)] = len(self.ids); self.keep.append(f)
                    self.atom('defaults'); self.visit(f.__defaults__, depth + 1); self.visit(f.__kwdefaults__, depth + 1)
            return
        if isinstance(o, types.ModuleType):
            self.atom('mod', o.__name__); return
        if isinstance(o, type):
            self.atom('cls', o.__module__, o.__qualname__)
            if is_parso_class(o) and id(o) not in self.ids:
                self.ids[id(o)] = len(self.ids); self.keep.append(o)
                for k in sorted(vars(o)):
                    if k.startswith('__') and k.endswith('__') and k not in ('__slots__',):
                        continue
                    v = vars(o)[k]
                    self.atom('attr', k); self.visit(v, depth + 1)
            return
        if id(o) in self.ids:
            self.atom('ref', self.ids[id(o)]); return
        if t in (list, tuple):
            self.ids[id(o)] = len(self.ids); self.keep.append(o)
            self.atom(t.__name__, len(o))
            for x in o: self.visit(x, depth + 1)
            return
        if t in (set, frozenset):
            self.ids[id(o)] = len(self.ids); self.keep.append(o)
            subs = []
            for x in o:
                c = Canon(); c.visit(x); subs.append(json.dumps(c.out, default=str))
            self.atom(t.__name__, sorted(subs)); return
        if isinstance(o, dict):
            self.ids[id(o)] = len(self.ids); self.keep.append(o)
            items = []
            for k, v in o.items():
                c = Canon(); c.visit(k); items.append((json.dumps(c.out, default=str), v))
            items.sort(key=lambda kv: kv[0])
            self.atom('dict', len(items))
            for ks, v in items:
                self.atom('k', ks); self.visit(v, depth + 1)
            return
        if is_parso_class(t):
            self.ids[id(o)] = len(self.ids); self.keep.append(o)
            if t.__name__ == 'Grammar' and t.__module__ == 'parso.pgen2.generator':
                self.atom('pgen', canon_pgen(o)); return
            self.atom('obj', t.__module__, t.__qualname__)
            d = {}
            if hasattr(o, '__dict__'): d.update(vars(o))
            for c in t.__mro__:
                for s in getattr(c, '__slots__', ()):
                    if isinstance(s, str) and hasattr(o, s): d[s] = getattr(o, s)
            if isinstance(o, tuple):
                self.atom('tuple-part', len(o))
                for x in o: self.visit(x, depth + 1)
            for k in sorted(d):
                self.atom('attr', k); self.visit(d[k], depth + 1)
            return
        self.atom('foreign', t.__module__, t.__qualname__)

def canon_pgen(g):
    """Canonical form of generated tables: per rule BFS renumbering over sorted labels."""
    num = {}
    rules = {}
    for rule in sorted(g.nonterminal_to_dfas):
        dfas = g.nonterminal_to_dfas[rule]
        order = [dfas[0]]; seen = {id(dfas[0]): 0}
        for st in order:
            for label in sorted(st.arcs):
                nx = st.arcs[label]
                if id(nx) not in seen:
                    seen[id(nx)] = len(order); order.append(nx)
        for st in dfas:
            if id(st) not in seen:
                seen[id(st)] = len(order); order.append(st)
        for st in order: num[id(st)] = (rule, seen[id(st)])
        rules[rule] = order
    def tkey(t):
        return ('R', t.value) if type(t).__name__ == 'ReservedString' else ('T', t.name)
    out = []
    for rule in sorted(rules):
        for st in rules[rule]:
            arcs = sorted((l, num[id(n)]) for l, n in st.arcs.items())
            nt = sorted((l, num[id(n)]) for l, n in st.nonterminal_arcs.items())
            tr = sorted((tkey(k), num[id(p.next_dfa)], [num[id(x)] for x in p.dfa_pushes]) for k, p in st.transitions.items())
            out.append((num[id(st)], st.from_rule, st.is_final, arcs, nt, tr))
    out.append(('reserved', sorted(g.reserved_syntax_strings)))
    out.append(('start', g.start_nonterminal))
    return hashlib.sha1(json.dumps(out).encode()).hexdigest()

def interpreter_state():
    """Process-wide interpreter settings a library call must not leave changed."""
    import gc
    import warnings
    import locale
    import threading
    st = {
        'recursionlimit': RECURSION_LIMIT_SEEN[0] if RECURSION_LIMIT_SEEN[0] is not None else sys.getrecursionlimit(),
        'gc.enabled': gc.isenabled(), 'gc.threshold': gc.get_threshold(),
        'warnings.filters': [(f[0], getattr(f[1], 'pattern', f[1]), getattr(f[2], '__name__', str(f[2])),
                              getattr(f[3], 'pattern', f[3]), f[4]) for f in warnings.filters],
        'switchinterval': sys.getswitchinterval(), 'stack_size': threading.stack_size(),
        'cwd': os.getcwd(), 'environ': hashlib.sha1(repr(sorted(os.environ.items())).encode()).hexdigest(),
        'locale': locale.setlocale(locale.LC_ALL), 'sys.path': list(sys.path),
        'excepthook': getattr(sys.excepthook, '__qualname__', '?'), 'int_max_str_digits': sys.get_int_max_str_digits(),
    }
    return hashlib.sha1(json.dumps(st, default=str, sort_keys=True).encode()).hexdigest(), st


RECURSION_LIMIT_SEEN = [None]


class deep_recursion:
    """The fingerprint walks deep object graphs; the calls under test run with the default limit.
    The limit that was in force is remembered so that the fingerprint can report it."""
    def __enter__(self):
        self.old = sys.getrecursionlimit()
        RECURSION_LIMIT_SEEN[0] = self.old
        sys.setrecursionlimit(20000)

    def __exit__(self, *a):
        sys.setrecursionlimit(self.old)
        RECURSION_LIMIT_SEEN[0] = None


def fingerprint(detail=False):
    with deep_recursion():
        return _fingerprint(detail)


def _fingerprint(detail=False):
    per = {'<interpreter>': interpreter_state()[0]}
    for name, mod in parso_modules():
        c = Canon()
        for k in sorted(vars(mod)):
            if k.startswith('__'): continue
            c.atom('global', k); c.visit(vars(mod)[k])
        per[name] = hashlib.sha1(json.dumps(c.out, default=str).encode()).hexdigest()
    return per if detail else hashlib.sha1(json.dumps(per, sort_keys=True).encode()).hexdigest()



# ---------------------------------------------------------------------------
# shallow state: one canonical value per named global / class attribute, so that a change can be
# classified as additive (first-use memoisation: None -> value, a container that only gains
# elements) or destructive (a value replaced, elements removed or altered)
# ---------------------------------------------------------------------------
class ShallowCanon(Canon):
    """Like Canon, but parso classes and functions are named, not expanded (their attributes and
    defaults are keys of their own in shallow_state)."""
    def visit(self, o, depth=0):
        if isinstance(o, type):
            self.atom('cls', o.__module__, o.__qualname__)
            return
        if isinstance(o, (types.FunctionType, types.BuiltinFunctionType, types.MethodType, staticmethod,
                          classmethod, property)):
            f = getattr(o, '__func__', o)
            self.atom('fn', getattr(f, '__module__', None), getattr(f, '__qualname__', repr(type(o))))
            return
        Canon.visit(self, o, depth)


def _summ(o):
    """('none',) | ('scalar', digest) | ('list', [digests]) | ('set', [digests]) | ('dict', {key: digest})"""
    def dg(x):
        c = ShallowCanon()
        c.visit(x)
        return hashlib.sha1(json.dumps(c.out, default=str).encode()).hexdigest()[:16]
    if o is None:
        return ('none',)
    t = type(o)
    if t is list:
        return ('list', [dg(x) for x in o])
    if t in (set, frozenset):
        return ('set', sorted(dg(x) for x in o))
    if t is dict:
        return ('dict', {dg(k): dg(v) for k, v in o.items()})
    return ('scalar', dg(o))


def shallow_state():
    with deep_recursion():
        st = _shallow_state()
        for k, v in interpreter_state()[1].items():
            st['<interpreter>.' + k] = ('scalar', hashlib.sha1(repr(v).encode()).hexdigest()[:16])
        return st


def _shallow_state():
    st = {}
    for name, mod in parso_modules():
        for k in sorted(vars(mod)):
            if k.startswith('__'):
                continue
            v = vars(mod)[k]
            if isinstance(v, types.ModuleType):
                continue
            if isinstance(v, type):
                if is_parso_class(v) and v.__module__ == name:
                    for a in sorted(vars(v)):
                        if a.startswith('__') and a.endswith('__') and a != '__slots__':
                            continue
                        st['%s.%s.%s' % (name, k, a)] = _summ(vars(v)[a])
                continue
            if isinstance(v, types.FunctionType):
                if v.__module__ == name:
                    st['%s.%s.<defaults>' % (name, k)] = _summ([v.__defaults__, v.__kwdefaults__])
                continue
            st['%s.%s' % (name, k)] = _summ(v)
    return st


def destructive_changes(before, after):
    """Keys whose change is not explainable as first-use memoisation."""
    bad = []
    for k, a in before.items():
        b = after.get(k)
        if b is None:
            bad.append((k, 'removed'))
            continue
        if a == b or a[0] == 'none':
            continue
        if a[0] != b[0]:
            bad.append((k, 'replaced (%s -> %s)' % (a[0], b[0])))
        elif a[0] == 'scalar':
            bad.append((k, 'replaced'))
        elif a[0] == 'list':
            if b[1][:len(a[1])] != a[1]:
                bad.append((k, 'list elements removed or altered'))
        elif a[0] == 'set':
            if not set(a[1]) <= set(b[1]):
                bad.append((k, 'set elements removed or altered'))
        elif a[0] == 'dict':
            if any(b[1].get(kk) != vv for kk, vv in a[1].items()):
                bad.append((k, 'dict entries removed or altered'))
    return bad
