"""C18: seeded line-granularity interleavings of caller threads on shared grammar objects.

Every run forks two children from a pristine image (parso imported, nothing used yet):
  R  executes all ops sequentially in canonical order, untraced, then a second time;
  C  executes the plan's threads under the scheduler: real threads, exactly one runnable,
     sys.settrace line events in parso frames are the steps, the plan's switch list decides
     after how many steps the baton moves and to whom.
Oracle: per-op outcomes equal in R and C; shared-state fingerprint equal at the end of R and C
and unchanged by the second execution in R; no op exceeds the step cap.
"""
import hashlib
import json
import os
import random
import sys
import threading
import time
import traceback

from . import corpus, pool

VERIF = os.path.dirname(os.path.dirname(os.path.abspath(__file__)))
STEP_CAP = 6_000_000            # per run, and at least 4 M per thread of the plan (deep texts are slow)
SWITCH_TIMEOUT = 120


def _parso_dirs():
    import parso
    base = os.path.dirname(os.path.abspath(parso.__file__)) + os.sep
    return base, base + 'pgen2' + os.sep


# ---------------------------------------------------------------------------
# ops
# ---------------------------------------------------------------------------
def op_outcome(op):
    """Execute one op with the real library; canonical, comparable outcome."""
    import parso
    from parso.python.tokenize import tokenize
    from parso.utils import parse_version_string
    from .sig import tree_sig
    k = op['k']
    try:
        if k == 'load':
            g = parso.load_grammar(version=op['v'])
            return ('ok', 'grammar', g._hashed[:12], str(g.version_info))
        if k == 'loadpath':
            # a custom grammar file loaded under this version number, then used once
            g = parso.load_grammar(version=op['v'], path=_custom_grammar_file())
            m = g.parse(op['text'])
            return ('ok', 'custom-grammar', g._hashed[:12], tree_sig(m)[0])
        g = parso.load_grammar(version=op['v'])
        text = op.get('text')
        if op.get('as_bytes') and text is not None:
            text = text.encode('utf-8', 'surrogatepass')
        if k == 'parse':
            kw = {}
            if not op.get('recovery', True):
                kw['error_recovery'] = False
            if op.get('start'):
                kw['start_symbol'] = op['start']
                kw['error_recovery'] = False
            m = g.parse(text, **kw)
            sig, problems = tree_sig(m)
            return ('ok', sig, m.get_code(), problems[:2])
        if k == 'errors':
            m = g.parse(text)
            issues = list(g.iter_errors(m))
            return ('ok', [(i.code, i.message, i.start_pos, i.end_pos) for i in issues], tree_sig(m)[0])
        if k == 'pep8':
            m = g.parse(text)
            issues = g._get_normalizer_issues(m)
            return ('ok', [(i.code, i.message, i.start_pos, i.end_pos) for i in issues], tree_sig(m)[0])
        if k == 'tokenize':
            toks = list(tokenize(op['text'], version_info=parse_version_string(op['v'])))
            return ('ok', [(t.type.name, t.string, t.start_pos, t.prefix) for t in toks])
        if k == 'custom':
            # the extension API: a user-defined normalizer with its own registered rules
            m = g.parse(op['text'])
            issues = g._get_normalizer_issues(m, _custom_config())
            return ('ok', [(i.code, i.message, i.start_pos, i.end_pos) for i in issues], tree_sig(m)[0])
        if k == 'names':
            m = g.parse(op['text'])
            un = m.get_used_names()
            return ('ok', sorted((n, sorted(x.start_pos for x in v)) for n, v in un.items()))
        raise ValueError('unknown op %r' % (k,))
    except _Abort:
        raise
    except KeyboardInterrupt as e:
        return ('exc', 'KeyboardInterrupt', str(e)[:80])
    except RecursionError:
        # where exactly the limit is hit (and with it the message) depends on a frame more or less
        return ('exc', 'RecursionError', '')
    except BaseException as e:
        return ('exc', type(e).__name__, str(e)[:200])


class _Abort(BaseException):
    pass


_CUSTOM = None
_CUSTOM_GRAMMAR_FILE = None


def _custom_grammar_file():
    """A real file holding the 3.6 grammar of the tree under test (written once, outside /verif and
    /repo; content is a pure function of the tree under test)."""
    global _CUSTOM_GRAMMAR_FILE
    if _CUSTOM_GRAMMAR_FILE is None:
        import parso
        import tempfile
        src = os.path.join(os.path.dirname(parso.__file__), 'python', 'grammar36.txt')
        with open(src) as f:
            text = f.read()
        path = os.path.join(tempfile.gettempdir(), 'verif-c18-custom-grammar-%d.txt' % os.getuid())
        try:
            with open(path) as f:
                same = f.read() == text
        except OSError:
            same = False
        if not same:
            tmp = '%s.%d' % (path, os.getpid())
            with open(tmp, 'w') as f:
                f.write(text)
            os.replace(tmp, path)
        _CUSTOM_GRAMMAR_FILE = path
    return _CUSTOM_GRAMMAR_FILE


def _custom_config():
    global _CUSTOM
    if _CUSTOM is None:
        from parso.python.errors import ErrorFinder, ErrorFinderConfig
        from parso.normalizer import Rule

        class UserFinder(ErrorFinder):
            pass

        @UserFinder.register_rule(type='name')
        class NoTmpNames(Rule):
            code = 9001
            message = 'temporary name'

            def is_issue(self, node):
                return node.value.startswith('tmp')

        @UserFinder.register_rule(value='pass')
        class NoPass(Rule):
            code = 9002
            message = 'pass statement'

            def is_issue(self, node):
                return True

        class UserConfig(ErrorFinderConfig):
            normalizer_class = UserFinder

        _CUSTOM = UserConfig()
    return _CUSTOM


# ---------------------------------------------------------------------------
# scheduler (child C)
# ---------------------------------------------------------------------------
# When the traced code sits at the recursion limit, the call of the trace function itself raises
# RecursionError; CPython then switches tracing off for that thread.  The thread would run the rest of
# its calls as one atomic step.  A sys.monitoring PY_UNWIND callback (fires only while an exception
# unwinds a frame) switches tracing on again.
_REARM = {'sched': None, 'count': 0, 'installed': False}


def _on_unwind(code, offset, exc):
    s = _REARM['sched']
    if s is not None and sys.gettrace() is None and getattr(threading.current_thread(), '_verif_traced', False):
        sys.settrace(s.global_trace)
        _REARM['count'] += 1


def _install_rearm(sched):
    _REARM['sched'] = sched
    if not _REARM['installed']:
        mon = sys.monitoring
        try:
            mon.use_tool_id(3, 'verif-rearm-trace')
        except ValueError:
            pass
        mon.register_callback(3, mon.events.PY_UNWIND, _on_unwind)
        mon.set_events(3, mon.events.PY_UNWIND)
        _REARM['installed'] = True


def _nest(n):
    return _nest(n - 1) if n else 0


def _parso_locks():
    """[(owner, attribute name, lock)] for lock objects among parso's module globals and class attributes."""
    import _thread
    lock_types = (_thread.LockType, _thread.RLock)
    found = []
    for name, mod in sorted(sys.modules.items()):
        if not (name == 'parso' or name.startswith('parso.')) or mod is None:
            continue
        for k, v in list(vars(mod).items()):
            if isinstance(v, lock_types):
                found.append((mod, k, v))
            elif isinstance(v, type) and getattr(v, '__module__', '') == name:
                found.extend((v, a, x) for a, x in list(vars(v).items()) if isinstance(x, lock_types))
    return found


class SimLock:
    """Stand-in for a lock of parso's while the scheduler runs: acquiring it is a scheduling point.
    A thread may be parked while it holds the lock; a thread that then asks for it with a blocking
    acquire hands the baton on (it is not runnable until the lock is free), a non-blocking acquire
    returns False - both deterministic, decided by the same switch list as every other hand-off."""

    def __init__(self, sched, reentrant):
        self.sched = sched
        self.reentrant = reentrant
        self.owner = None
        self.count = 0

    def acquire(self, blocking=True, timeout=-1):
        s = self.sched
        me = s.cur
        if self.owner is None or (self.reentrant and self.owner == me):
            self.owner = me
            self.count += 1
            return True
        s.lock_contended += 1
        if not blocking or timeout == 0:
            return False
        tried = 0
        while self.owner is not None:
            s.blocked[me] = self
            s._switch(me)
            s.blocked[me] = None
            tried += 1
            if timeout is not None and timeout > 0 and tried >= 2 and self.owner is not None:
                return False                      # a timed acquire gives up after it has been passed over twice
        self.owner = me
        self.count = 1
        return True

    __enter__ = acquire

    def release(self):
        if self.owner is None:
            raise RuntimeError('release unlocked lock')
        self.count -= 1
        if self.count <= 0:
            self.owner = None
            self.count = 0

    def __exit__(self, *a):
        self.release()

    def locked(self):
        return self.owner is not None

    def _is_owned(self):
        return self.owner == self.sched.cur


def _held(lock):
    try:
        return lock.locked()
    except AttributeError:
        return lock._is_owned()


class Scheduler:
    def __init__(self, plan, generate, seed):
        self.plan = plan
        self.generate = generate
        self.switches = plan.setdefault('switches', [])     # [[steps_until_switch, pick], ...]
        self.spos = 0
        self.rng = random.Random(seed * 7919 + 5) if generate else None
        self.mean_q = plan['config'].get('quantum', 300)
        self.nthreads = len(plan['threads'])
        self.sems = [threading.Semaphore(0) for _ in range(self.nthreads)]
        self.done = threading.Semaphore(0)
        self.alive = list(range(self.nthreads))
        self.cur = None
        self.steps = 0
        self.left = 0
        self.pick = 0
        self.in_op = [False] * self.nthreads
        self.atomic = [0] * self.nthreads
        self.pgen_atomic = bool(plan['config'].get('pgen_atomic', False))
        self.burst = int(plan['config'].get('burst', 0))
        self.newline_p = float(plan['config'].get('newline_p', 0.0)) if generate else 0.0
        self.seen_lines = set()
        self.freeze_p = float(plan['config'].get('freeze_p', 0.0)) if generate else 0.0
        self.frozen = {}
        self.fz = 0
        self._replayed = list(self.switches)        # entries that came with the plan (replay)
        self.outcomes = {}
        self.trace = []                  # (step, from, to, both_in_op)
        self.nontrivial_switches = 0
        self.error = None
        self.base, self.pgen = _parso_dirs()
        self._traced = {}
        self.step_cap_hit = False
        self.step_cap = max(STEP_CAP, 4_000_000 * self.nthreads)
        self.deferred = 0
        self.deferred_lock = 0
        # simulated interrupts (KeyboardInterrupt raised at the n-th traced line of a call): {'t.j': n}
        self.abort_plan = dict(plan['config'].get('aborts') or {})
        self.abort_n = [0] * self.nthreads
        self.op_steps = [0] * self.nthreads
        self.aborted = set()
        self.cur_op = [None] * self.nthreads
        self.prev_line = [(0, 0)] * self.nthreads
        self.blocked = [None] * self.nthreads
        self.lock_contended = 0
        self.deadlock = False
        self.simlocks = []               # (owner object, attribute, real lock, stand-in)
        self.locks = []                  # real locks the scheduler cannot replace (none known): never parked while held
        self.probe = None                # called as probe(step, frame) at every counted line (profiling runs)

    # -- schedule tape
    def _next_switch(self):
        fz = 0
        if self.spos < len(self.switches):
            ent = self.switches[self.spos]
            q, p = ent[0], ent[1]
            fz = ent[2] if len(ent) > 2 else 0
        elif self.generate:
            r = self.rng.random()
            q = max(1, int(self.rng.expovariate(1.0 / self.mean_q)))
            if r < 0.1 or self.spos < self.burst:
                # lockstep burst at the start of a run: all threads creep through their first-use
                # paths a line or two at a time (where cold-start races live)
                q = self.rng.randint(1, 3)
            p = self.rng.randrange(8)
            if self.freeze_p and self.rng.random() < self.freeze_p:
                # the thread whose quantum this is will stay parked for a while after it (PCT-style
                # demotion): "everybody else runs a long way while this one sits in the middle of X"
                fz = self.rng.choice([5, 20, 100, 1000])
            self.switches.append([q, p, fz] if fz else [q, p])
        else:
            q, p = 1 << 60, 0
        self.spos += 1
        self.left, self.pick, self.fz = q, p, fz

    # -- tracing
    def global_trace(self, frame, event, arg):
        code = frame.f_code
        t = self._traced.get(code)
        if t is None:
            fn = code.co_filename
            # Frames of parso/pgen2 are not traced at all: the number of lines they execute depends on
            # object addresses (a set of NFA states is iterated), their effect does not.  Code they
            # call outside pgen2 - the tokenizer run over the grammar text, which is where the first
            # token collection of a process is created - is traced and pre-emptible like any other.
            if fn.startswith(self.pgen):
                # Measured per function over several runs: only _make_dfas, _simplify_dfas, unifystate and
                # DFAState.__eq__ execute an address-dependent number of lines (they iterate over sets of
                # NFA states).  Those are one step each (with everything they call); the rest of the table
                # generation - reading the grammar file, _make_transition, the first-plan and traversal
                # calculations - is traced and pre-emptible like any other code.
                if self.pgen_atomic and code.co_name == 'generate_grammar':
                    t = 2
                elif code.co_name in ('_make_dfas', '_simplify_dfas'):
                    t = 2
                elif code.co_name in ('unifystate', '__eq__'):
                    t = 0
                else:
                    t = 1
            else:
                t = 1 if fn.startswith(self.base) else 0
            self._traced[code] = t
        if t == 1:
            return self.local_trace
        if t == 2:
            # swarm knob `pgen_atomic`: the whole table generation (including the tokenizer run it
            # triggers) is one step, so that "another thread runs a complete generation while this one
            # is parked next to it" is reachable with ordinary quanta
            self.atomic[self.cur] += 1
            return self.atomic_trace
        return None

    def atomic_trace(self, frame, event, arg):
        if event == 'return':
            self.atomic[self.cur] -= 1
        return self.atomic_trace

    def local_trace(self, frame, event, arg):
        if event == 'line':
            me = self.cur
            if self.atomic[me]:
                return self.local_trace
            self.steps += 1
            if self.steps > self.step_cap:
                self.step_cap_hit = True
                raise _Abort('step cap')
            self.left -= 1
            if self.abort_n[me]:
                self.op_steps[me] += 1
                prev = self.prev_line[me]
                self.prev_line[me] = (id(frame), frame.f_lineno)
                if self.op_steps[me] >= self.abort_n[me] and not (prev[0] == id(frame) and frame.f_lineno <= prev[1]):
                    # (Not on a jump back to an earlier line of the same frame: that is a loop header or the
                    # exit of a `with` statement.  An asynchronous exception between the end of a with-body
                    # and the call of __exit__ skips the clean-up in CPython itself - nothing a library can do
                    # about; measured: the filter installed by warnings.catch_warnings() stayed for good.)
                    self.abort_n[me] = 0
                    self.aborted.add(self.cur_op[me])
                    # (raising from the trace function switches tracing off; the PY_UNWIND hook re-arms it)
                    raise KeyboardInterrupt('simulated interrupt')
            if self.probe is not None:
                self.probe(self.steps, frame)
            if self.newline_p and self.spos > len(self._replayed):
                # "new line" pre-emption (generate mode only; the recorded quanta replay it): a source
                # line that no thread of this process has executed yet is where first-use races live.
                # With probability newline_p the thread is parked right before it runs that line.
                key = (frame.f_code, frame.f_lineno)
                if key not in self.seen_lines:
                    self.seen_lines.add(key)
                    if self.left > 0 and self.rng.random() < self.newline_p and len(self.alive) > 1:
                        self.switches[self.spos - 1][0] -= self.left      # the quantum ends here
                        self.left = 0
            if self.left <= 0:
                # a hand-off needs a dozen frames of its own; right below the recursion limit it is put off
                # by a line (an exception between releasing the next thread and blocking would leave two
                # threads running)
                try:
                    _nest(14)
                except RecursionError:
                    self.left = 1
                    self.deferred += 1
                    return self.local_trace
                for lock in self.locks:
                    if _held(lock):
                        self.left = 1            # not while it holds one of parso's locks
                        self.deferred_lock += 1
                        return self.local_trace
                self._switch(me)
        return self.local_trace

    def _runnable(self, t):
        b = self.blocked[t]
        return b is None or b.owner is None

    def _switch(self, me):
        alive = [t for t in self.alive if t != me and self._runnable(t)]
        cands = [t for t in alive if self.frozen.get(t, 0) <= self.spos]
        if not cands:
            cands = alive
        pick = self.pick
        if self.fz:
            self.frozen[me] = self.spos + self.fz
        self._next_switch()
        if not cands:
            if self.blocked[me] is not None and self.blocked[me].owner is not None:
                # nobody can run and this thread waits for a lock: a deadlock of the code under test
                self.deadlock = True
                raise _Abort('deadlock: every thread waits for a lock')
            return
        nxt = cands[pick % len(cands)]
        both = self.in_op[me] and self.in_op[nxt]
        if both:
            self.nontrivial_switches += 1
        self.trace.append((self.steps, me, nxt, both))
        self.cur = nxt
        self.sems[nxt].release()
        if not self.sems[me].acquire(timeout=SWITCH_TIMEOUT):
            raise _Abort('baton lost')

    # -- threads
    def _body(self, tid):
        if not self.sems[tid].acquire(timeout=SWITCH_TIMEOUT):
            return
        threading.current_thread()._verif_traced = True
        sys.settrace(self.global_trace)
        try:
            ops = self.plan['threads'][tid]
            order = list(range(len(ops)))
            perm = self.plan['config'].get('perm')
            if perm and self.nthreads == 1:
                order = [j for j in perm if j < len(ops)] + [j for j in order if j not in perm]
            for j in order:
                op = ops[j]
                if sys.gettrace() is None:
                    sys.settrace(self.global_trace)
                self.cur_op[tid] = (tid, j)
                self.op_steps[tid] = 0
                self.abort_n[tid] = int(self.abort_plan.get('%d.%d' % (tid, j), 0))
                self.in_op[tid] = True
                out = op_outcome(op)
                self.in_op[tid] = False
                self.abort_n[tid] = 0
                self.outcomes[(tid, j)] = ('aborted',) if (tid, j) in self.aborted else out
        except _Abort as e:
            self.error = str(e)
        except BaseException as e:
            self.error = 'harness: %r %s' % (e, traceback.format_exc()[-800:])
        finally:
            threading.current_thread()._verif_traced = False
            sys.settrace(None)
            self.in_op[tid] = False
            self.alive.remove(tid)
            if self.alive and self.error is None:
                run = [t for t in self.alive if self._runnable(t)] or self.alive
                cands = [t for t in run if self.frozen.get(t, 0) <= self.spos] or run
                nxt = cands[self.pick % len(cands)]
                self.trace.append((self.steps, tid, nxt, False))
                self.cur = nxt
                self.sems[nxt].release()
            else:
                self.done.release()

    def run(self):
        _install_rearm(self)
        self.install_locks()
        try:
            return self._run()
        finally:
            for owner, attr, lock, stand_in in self.simlocks:
                setattr(owner, attr, lock)

    def install_locks(self):
        import _thread
        if self.simlocks:
            return
        for owner, attr, lock in _parso_locks():
            stand_in = SimLock(self, isinstance(lock, _thread.RLock))
            self.simlocks.append((owner, attr, lock, stand_in))
            setattr(owner, attr, stand_in)

    def _run(self):
        threads = [threading.Thread(target=self._body, args=(i,), daemon=True) for i in range(self.nthreads)]
        for t in threads:
            t.start()
        self._next_switch()
        first = self.plan['config'].get('first', 0) % self.nthreads
        self.cur = first
        self.sems[first].release()
        if not self.done.acquire(timeout=600):
            self.error = self.error or 'scheduler stalled'
        return self


# ---------------------------------------------------------------------------
# children
# ---------------------------------------------------------------------------
def _warm(plan):
    import parso
    for v in plan['config'].get('warm', []):
        g = parso.load_grammar(version=v)
        m = g.parse('def f(a):\n  x = f"{a}"\n   y\nif x:\n    global z\n')
        list(g.iter_errors(m))
        g._get_normalizer_issues(m)


FIRST_USE_MODULES = ('parso.grammar', 'parso.python.tokenize')


DEFAULT_RECURSION_LIMIT = 1000


_PGEN_PATCHED = [False]


def _deterministic_pgen():
    """The parser generator iterates over sets of NFAState objects, which hash by address: the order in
    which it works through them - not the language it generates - differs from run to run.  Inside the
    simulation the states hash by their creation number instead, which fixes that order (any fixed order
    is one the real code can take) and makes the whole table generation repeatable line by line."""
    if _PGEN_PATCHED[0]:
        return
    import itertools
    from parso.pgen2 import grammar_parser as gp
    counter = itertools.count(1)
    orig_init = gp.NFAState.__init__

    def __init__(self, from_rule):
        orig_init(self, from_rule)
        self._creation_number = next(counter)

    def __hash__(self):
        return self._creation_number

    __init__.__qualname__ = 'NFAState.__init__'
    __hash__.__qualname__ = 'NFAState.__hash__'
    gp.NFAState.__init__ = __init__
    gp.NFAState.__hash__ = __hash__
    _PGEN_PATCHED[0] = True


def _apply_warn_error(plan):
    _deterministic_pgen()
    # an application that runs with -W error (pytest's filterwarnings = error, python -X dev ...)
    if plan['config'].get('warn_error'):
        import warnings
        warnings.simplefilter('error')


def _in_thread(fn):
    """The reference executes its calls in a thread of their own, like the scheduled execution does:
    both start from the same stack depth (matters for code nested deeply enough to hit the limit)."""
    box = []

    def body():
        try:
            box.append(('ok', fn()))
        except BaseException as e:       # noqa
            box.append(('err', e))
    t = threading.Thread(target=body)
    t.start()
    t.join()
    if box[0][0] == 'err':
        raise box[0][1]
    return box[0][1]


def child_reference(plan):
    from . import fingerprint
    sys.setrecursionlimit(DEFAULT_RECURSION_LIMIT)
    _apply_warn_error(plan)
    _warm(plan)
    fp0 = fingerprint.fingerprint(True)
    sh0 = fingerprint.shallow_state()
    out = {}
    order = [(t, j) for t in range(len(plan['threads'])) for j in range(len(plan['threads'][t]))]

    def run_all(o):
        for (t, j) in order:
            o['%d.%d' % (t, j)] = op_outcome(plan['threads'][t][j])
    _in_thread(lambda: run_all(out))
    fp1 = fingerprint.fingerprint(True)
    sh1 = fingerprint.shallow_state()
    out2 = {}
    _in_thread(lambda: run_all(out2))
    fp2 = fingerprint.fingerprint(True)
    shallow_changed = sorted(k for k in sh1 if sh0.get(k) != sh1[k])
    return {'outcomes': out, 'outcomes2': out2, 'fp0': fp0, 'fp1': fp1, 'fp2': fp2,
            'destructive': fingerprint.destructive_changes(sh0, sh1), 'shallow_changed': shallow_changed}


def child_concurrent(plan, generate, seed):
    """The plan's thread set under the scheduler: first round from the plan's start state (cold or
    warm), then `rounds - 1` more schedules of the same calls in the same process (each with its own
    switch list `more[i]`).  Every round's outcomes are compared with the sequential reference."""
    from . import fingerprint
    sys.setrecursionlimit(DEFAULT_RECURSION_LIMIT)
    _apply_warn_error(plan)
    _warm(plan)
    s = Scheduler(plan, generate, seed).run()
    out = {'outcomes': {'%d.%d' % k: v for k, v in s.outcomes.items()}, 'error': s.error,
           'steps': s.steps, 'switches': plan['switches'][:s.spos], 'trace': list(s.trace),
           'nontrivial_switches': s.nontrivial_switches, 'step_cap': s.step_cap_hit, 'more': [],
           'deadlock': s.deadlock, 'lock_contended': s.lock_contended}
    more = plan.setdefault('more', [])
    for r in range(plan['config'].get('rounds', 1) - 1):
        if out['error'] or out['step_cap']:
            break
        while len(more) <= r:
            more.append([])
        sub = dict(plan, switches=more[r], config=dict(plan['config'], first=(plan['config'].get('first', 0) + r + 1)))
        s2 = Scheduler(sub, generate, seed * 31 + r + 1).run()
        out['more'].append(sub['switches'][:s2.spos])
        out['error'] = s2.error
        out['step_cap'] = s2.step_cap_hit
        out['deadlock'] = s2.deadlock
        out['lock_contended'] += s2.lock_contended
        out['steps'] += s2.steps
        out['nontrivial_switches'] += s2.nontrivial_switches
        out['trace'].append(('round', r + 1))
        out['trace'].extend(s2.trace)
        for k, v in s2.outcomes.items():
            out['outcomes']['%d.%d#%d' % (k[0], k[1], r + 1)] = v
    if plan['config'].get('aborts'):
        # after a call was interrupted: every call of the plan once more, one after the other
        rec = {}

        def again():
            for t in range(len(plan['threads'])):
                for j in range(len(plan['threads'][t])):
                    rec['%d.%d' % (t, j)] = op_outcome(plan['threads'][t][j])
        _in_thread(again)
        out['recovery'] = rec
        out['aborted'] = sorted('%d.%d' % k for k in s.aborted)
    out['fp'] = fingerprint.fingerprint(True)
    return out


def _in_child(fn, *a):
    """Run fn(*a) in a forked child of this (pristine) process; returns its result."""
    import pickle
    r, w = os.pipe()
    pid = os.fork()
    if pid == 0:
        try:
            os.close(r)
            # (generators finalised while a RecursionError unwinds report "Exception ignored in ...")
            sys.unraisablehook = lambda *args: None
            try:
                res = ('ok', fn(*a))
            except BaseException as e:
                res = ('err', '%r %s' % (e, traceback.format_exc()[-1500:]))
            data = pickle.dumps(res)
            off = 0
            while off < len(data):
                off += os.write(w, data[off:off + 65536])
        finally:
            os._exit(0)
    os.close(w)
    buf = []
    while True:
        c = os.read(r, 1 << 20)
        if not c:
            break
        buf.append(c)
    os.close(r)
    os.waitpid(pid, 0)
    if not buf:
        return ('err', 'child died without a result')
    return pickle.loads(b''.join(buf))


# ---------------------------------------------------------------------------
# plans
# ---------------------------------------------------------------------------
STATEFUL_TEXTS = [
    "def f():\n        x\n    y\n  z\na\n",
    "class A:\n    def f(self):\n        return 1\n   def g(self):\n        return 2\n",
    "if 1:\n  a\n    b\n c\n",
    "def f(\n    a,\n  b):\n      x = [1,\n  2\n",
    "x = f'{a!r:>{w}}' + f'''{\n b}'''\n",
    "x = f'{a'\ny = (1,\n",
    "def f():\n    global x\n    x = 1\n    def g():\n        nonlocal y\n        y = 2\n",
    "print(n := 3)\nasync = 1\nawait x\n",
    "for x in y:\n    continue\nbreak\nreturn\nyield\n",
    "try:\n    pass\nexcept* E:\n    pass\nmatch x:\n    case 1: pass\n",
    "def f(x=3, y): pass\nf(x=1, x=2)\nf(**x, y)\n*a = b\n",
    "class X:\n  def f(self):\n      pass\n\n\n\n  x=1;y = 2 \nimport os, sys\n",
    "tmp_a = 1\ndef tmp_f(tmp_x):\n    pass\n",
    "from __future__ import annotations\nx: int = 1\n",
    "from __future__ import whatever\nfrom __future__ import annotations, division\n",
    "[x := i for i in range(5)]\n[i := 0 for i, j in range(5)]\nprint([(y := f(x), y**2) for x in data])\n",
    "[i+1 for i in (i := range(5))]\n{(a := 1): (b := 2) for a in c for b in d}\n",
    "x = '\\d' + b'\\q' + '\\N{DASH}' + '\\x4'\ny = 'fine\\n' 'a\\db'\n",
    # the same payload as a str literal (an error) and as a bytes literal (fine), in both orders
    "x = '\\u12'\ny = b'\\u12'\nz = '\\N{'\nw = b'\\N{'\n",
    "y = b'\\U0001'\nx = '\\U0001'\nw = b'\\x41\\u'\nz = '\\x41\\u'\n",
]


def _big_text(n):
    out = []
    for i in range(n):
        if i % 40 == 0:
            out.append('def f%d(a, b=%d):\n' % (i, i))
        elif i % 40 < 12:
            out.append('    v%d = a + %d  # c\n' % (i, i))
        elif i % 40 == 12:
            out.append('    return v%d\n' % (i - 1))
        else:
            out.append('w%d = [%d, "s%d"]\n' % (i, i, i))
    return ''.join(out)


# A large source (an implementation may treat those differently).
SIZE_TEXTS = [_big_text(1700)]


def _deep_blocks(d):
    kinds = ['if x%d:', 'for i%d in y:', 'while z%d:', 'with w%d:', 'def f%d():', 'class C%d:', 'async def g%d():']
    out = []
    for i in range(d):
        k = kinds[i % len(kinds)]
        out.append(' ' * i + (k % i if '%d' in k else k) + '\n')
    out.append(' ' * d + 'x = (y := 1)\n')
    return ''.join(out)


# Far beyond what the default recursion limit lets the (recursive) issue listing walk, while the
# (iterative) parser copes: whatever such a call does about RecursionError, it does it in every thread.
DEEP_TEXTS = [
    _deep_blocks(185),              # needs about 1200 frames: beyond the default limit, but below the ~1490 that traced code can reach
    'x = ' + '(' * 390 + '1' + ')' * 390 + '\nf(a=1, a=2)\n',
]


def _text(rng):
    r = rng.random()
    if r < 0.03:
        return rng.choice(DEEP_TEXTS)
    if r < 0.045:
        return SIZE_TEXTS[0]
    if r < 0.35:
        return rng.choice(STATEFUL_TEXTS)
    if r < 0.55:
        return rng.choice(corpus.SNIPPETS)
    if r < 0.7:
        return rng.choice(corpus.failing())
    if r < 0.85:
        return corpus.gen_block(rng, rng.randint(2, 10))
    return corpus.window(rng, 10)


SWEEP_KINDS = ['errors', 'pep8', 'parse', 'tokenize', 'custom', 'names', 'loadpath']


def make_sweep_plan(seed, idx):
    """Systematic part of the C18 search, aimed at first-use races: cold start, three threads making
    the very same call (kind x text x version in enumeration order), creeping forward in near
    lockstep for the whole run."""
    rng = random.Random('C18-sweep/%d' % seed)
    texts = DEEP_TEXTS + STATEFUL_TEXTS + corpus.SNIPPETS
    kind = SWEEP_KINDS[idx % len(SWEEP_KINDS)]
    k = idx // len(SWEEP_KINDS)
    text = texts[k % len(texts)]
    version = corpus.VERSIONS[(k // len(texts) + k) % len(corpus.VERSIONS)]
    op = {'k': kind, 'v': version, 'text': text}
    nthreads = 3 + idx % 3
    threads = [[dict(op)] for _ in range(nthreads)]
    if rng.random() < 0.5:
        threads[-1].append({'k': rng.choice(SWEEP_KINDS[:6]), 'v': version, 'text': rng.choice(texts)})
    cfg = {'quantum': rng.choice([300, 1000, 3000]), 'warm': [], 'first': rng.randrange(nthreads), 'sequential': False,
           'perm': None, 'rounds': 1, 'pgen_atomic': idx % 4 < 2, 'burst': 0, 'newline_p': rng.choice([0.2, 0.4, 0.6]), 'freeze_p': rng.choice([0.0, 0.1, 0.3]), 'attempts': 2, 'sweep': [kind, k % len(texts), version]}
    return {'sim': 'threadsim', 'seed': seed, 'config': cfg, 'threads': threads, 'switches': [], 'more': []}


def make_plan(seed, tier='quick'):
    if seed % 4 == 1:
        return make_sweep_plan(seed, seed // 4)
    rng = random.Random('C18/%d' % seed)
    nver = rng.choice([1, 1, 2, 3])
    versions = rng.sample(corpus.VERSIONS, nver)
    sequential = rng.random() < 0.12
    nthreads = 1 if sequential else rng.choice([2, 2, 2, 3, 3, 4, 6, 8])
    threads = []
    for t in range(nthreads):
        ops = []
        for _ in range(rng.randint(1, 4) if not sequential else rng.randint(4, 10)):
            v = rng.choice(versions)
            k = rng.choice(['parse'] * 4 + ['errors'] * 3 + ['pep8', 'tokenize', 'tokenize', 'names', 'load', 'custom', 'loadpath'])
            op = {'k': k, 'v': v}
            if k != 'load':
                op['text'] = _text(rng)
                if k in ('parse', 'errors', 'pep8') and rng.random() < 0.15:
                    op['as_bytes'] = True
            if k == 'parse':
                r = rng.random()
                if r < 0.2:
                    op['recovery'] = False
                elif r < 0.3:
                    op['start'] = rng.choice(['eval_input', 'expr_stmt', 'file_input'])
                    op['text'] = rng.choice(['a + b\n', 'x = 1', 'f(x)[1]', 'lambda: 0', 'a if b else', op['text']])
            ops.append(op)
        if sequential and rng.random() < 0.5:
            ops = ops + [dict(o) for o in rng.sample(ops, min(3, len(ops)))]     # repeated calls
        threads.append(ops)
    warm = rng.random() < 0.5
    perm = None
    if sequential:
        perm = list(range(len(threads[0])))
        rng.shuffle(perm)                    # the scheduled child runs the calls in another order
    cfg = {'quantum': rng.choice([3, 10, 30, 30, 100, 100, 300, 300, 1000, 3000]),
           'warm': versions if warm else [], 'first': rng.randrange(nthreads), 'sequential': sequential, 'perm': perm,
           'rounds': 1 if sequential else rng.choice([1, 1, 2, 3]), 'pgen_atomic': rng.random() < 0.5,
           'burst': rng.choice([0, 0, 100, 400, 1500]) if not warm else 0,
           'newline_p': rng.choice([0.0, 0.0, 0.1, 0.3, 0.5]), 'freeze_p': rng.choice([0.0, 0.0, 0.05, 0.2]),
           'warn_error': rng.random() < 0.25}
    if rng.random() < 0.12:
        # one call is interrupted (KeyboardInterrupt) at its n-th traced line; the others, and every call
        # once more afterwards, must behave as if nothing had happened
        t = rng.randrange(nthreads)
        j = rng.randrange(len(threads[t]))
        cfg['aborts'] = {'%d.%d' % (t, j): int(10 ** rng.uniform(0, 4.6))}
        cfg['rounds'] = 1
    if cfg['burst'] and not sequential and rng.random() < 0.5:
        # ... with every thread starting on the same grammar
        v0 = threads[0][0]['v']
        same_call = rng.random() < 0.5
        for th in threads:
            if same_call:
                th[0] = dict(threads[0][0])      # ... and even with the very same call
            else:
                th[0]['v'] = v0
    return {'sim': 'threadsim', 'seed': seed, 'config': cfg, 'threads': threads, 'switches': [], 'more': []}


# ---------------------------------------------------------------------------
# write-event profile and directed schedules ("scan" plans)
# ---------------------------------------------------------------------------
FIRST_USE_LABELS = ('parso.grammar._loaded_grammars', 'parso.python.tokenize._token_collection_cache')


def child_profile(plan):
    """Each op of thread 0 executed alone under the scheduler's own step counting, with the write
    tracker as probe: where (at which traced line) does this call write to process-wide state?"""
    from . import writes
    sys.setrecursionlimit(DEFAULT_RECURSION_LIMIT)
    _apply_warn_error(plan)
    _warm(plan)
    res = []
    for op in plan['threads'][0]:
        sub = dict(plan, threads=[[op]], switches=[], more=[], config=dict(plan['config'], first=0, perm=None))
        s = Scheduler(sub, False, 0)
        s.install_locks()                # (before the tracker takes its baseline: this rebinds module globals)
        tracker = writes.WriteTracker()
        s.probe = tracker.probe
        s.run()
        res.append({'events': tracker.events, 'steps': s.steps, 'error': s.error, 'cells': tracker.n_cells,
                    'outcome': s.outcomes.get((0, 0))})
    return res


def _scan_text(rng):
    """One snippet, or several glued together: one call then walks through many kinds of syntax."""
    pool_ = STATEFUL_TEXTS + corpus.SNIPPETS
    n = rng.choice([1, 1, 2, 3, 5, 8, 12])
    parts = []
    for _ in range(n):
        r = rng.random()
        if r < 0.6:
            t = rng.choice(pool_)
        elif r < 0.8:
            t = corpus.gen_block(rng, rng.randint(2, 8))
        else:
            t = rng.choice(corpus.failing())
        parts.append(t if t.endswith('\n') or n == 1 else t + '\n')
    return ''.join(parts)


SCAN_KINDS = ['errors', 'errors', 'pep8', 'parse', 'tokenize', 'custom', 'names', 'loadpath', 'parse-strict', 'parse-start']


def _scan_op(rng, version):
    kind = rng.choice(SCAN_KINDS)
    op = {'k': kind, 'v': version, 'text': _scan_text(rng)}
    if kind == 'parse-strict':
        op.update(k='parse', recovery=False)
    elif kind == 'parse-start':
        op.update(k='parse', start=rng.choice(['eval_input', 'expr_stmt', 'file_input']),
                  text=rng.choice(['a + b\n', 'x = 1', 'f(x)[1]', 'lambda: 0', 'a if b else', '[x := 1 for y in z]']))
    if op['k'] in ('parse', 'errors', 'pep8') and rng.random() < 0.1:
        op['as_bytes'] = True
    return op


_CHUNKS = None
SYS_KINDS = ['errors', 'pep8', 'custom', 'names']      # parse and tokenize are part of each of these
SYS_VERSIONS = ['3.14', '3.8', '3.6', '3.10', '3.12', '3.7', '3.9', '3.11', '3.13']


def scan_chunks():
    """The embedded texts glued into chunks of about ten: one profiled call per (chunk, kind,
    version) walks through every kind of syntax the corpus has.  Texts that CPython compiles come
    first in a chunk so that an unclosed bracket does not swallow the others."""
    global _CHUNKS
    if _CHUNKS is None:
        def ok(t):
            try:
                compile(t, '<corpus>', 'exec', dont_inherit=True)
                return 0
            except (SyntaxError, ValueError):
                return 1
            except Exception:
                return 1
        import warnings
        texts = STATEFUL_TEXTS + corpus.SNIPPETS
        chunks = []
        with warnings.catch_warnings():
            warnings.simplefilter('ignore')
            for i in range(0, len(texts), 10):
                part = sorted(texts[i:i + 10], key=ok)
                chunks.append(''.join(t if t.endswith('\n') else t + '\n' for t in part))
        _CHUNKS = chunks
    return _CHUNKS


def make_scan_plan(seed, idx, tier='quick'):
    """Profile plan: thread 0 lists the calls to be profiled.  idx % 3 == 0: systematic (the next
    chunk of the corpus under every call kind, warm); 1: random calls, warm; 2: one random call from
    a cold start (first-use writes)."""
    rng = random.Random('C18-scan/%d' % seed)
    mode = idx % 3
    cold = mode == 2
    if mode == 0:
        # (text, call kinds): the two deep texts on their own (issue listing only: the PEP 8 normalizer
        # needs millions of lines for them), then the chunks of the corpus under every kind
        # (... and last, because one profile of it costs 2.4 M traced lines, a source of 1700 lines)
        items = [(t, ['errors']) for t in DEEP_TEXTS] + [(t, SYS_KINDS) for t in scan_chunks()] + [(SIZE_TEXTS[0], ['parse'])]
        n = idx // 3
        version = SYS_VERSIONS[(n // len(items)) % len(SYS_VERSIONS)]
        text, kinds = items[n % len(items)]
        ops = [{'k': k, 'v': version, 'text': text} for k in kinds]
    else:
        version = corpus.VERSIONS[idx % len(corpus.VERSIONS)] if rng.random() < 0.7 else rng.choice(corpus.VERSIONS)
        nops = 1 if cold else rng.choice([3, 4, 6])
        ops = [_scan_op(rng, version) for _ in range(nops)]
    cfg = {'quantum': rng.choice([30, 300, 3000]), 'warm': [] if cold else [version], 'first': 0, 'sequential': False,
           'perm': None, 'rounds': 1, 'pgen_atomic': rng.random() < 0.5, 'burst': 0, 'newline_p': 0.0, 'freeze_p': 0.0,
           'warn_error': rng.random() < 0.3,
           'scan': {'cold': cold, 'systematic': mode == 0,
                    'max_attempts': 2 if os.environ.get('VERIF_LIGHT') else (8 if tier == 'quick' else 16)}}
    return {'sim': 'threadsim', 'seed': seed, 'config': cfg, 'threads': [ops], 'switches': [], 'more': []}


INF = 1 << 40


def directed_prefixes(events, rng, limit):
    """Switch-list prefixes that park thread 0 around a write event and let thread 1 run there.
    S1: 0 parks, 1 runs its whole call.  S2: 0 parks, 1 parks at (about) the same place of its own
    call, 0 goes on.  S3: like S2, then both creep forward a line or two at a time."""
    # one code location may write many times in one call (once per construct in the text): take the
    # dynamic instances round-robin over the locations, at most four per location
    by_loc = {}
    for (step, lab, fn, line) in events:
        by_loc.setdefault((lab.split(' (within')[0], fn, line), []).append(step)
    for key, steps in by_loc.items():
        steps = sorted(set(steps))
        if len(steps) > 4:
            steps = steps[:2] + [steps[-1]] + [rng.choice(steps[2:-1])]
        by_loc[key] = steps
    uniq = []
    for i in range(4):
        for key in by_loc:
            if i < len(by_loc[key]) and by_loc[key][i] not in uniq:
                uniq.append(by_loc[key][i])
    if len(uniq) > 24:
        uniq = uniq[:12] + rng.sample(uniq[12:], 12)
    cands = []
    for off, strat in ((0, 'S1'), (-1, 'S2'), (-2, 'S3'), (1, 'S1'), (-1, 'S1'), (0, 'S2'), (-3, 'S2'), (-5, 'S1'), (2, 'S3')):
        for step in uniq:
            s = step + off
            if any(lab.endswith('lines)') for (st, lab, _, _) in events if st == step):
                s = step - rng.randrange(0, 64)          # a coarse event: somewhere in the last 64 lines
            if s >= 1:
                cands.append((s, strat))
    out = []
    for s, strat in cands[:limit]:
        if strat == 'S1':
            pre = [[s, 0], [INF, 0]]
        elif strat == 'S2':
            pre = [[s, 0], [max(1, s + rng.randint(-2, 2)), 0]]
        else:
            pre = [[s, 0], [max(1, s + rng.randint(-2, 2)), 0]] + [[rng.randint(1, 3), 0] for _ in range(300)]
        out.append((strat, s, pre))
    return out


def run_scan(seed, tier, scan=None):
    """Profile the plan's calls; for every call that writes to shared state, run two threads making
    that call with the second thread scheduled into the first one's write window."""
    import copy
    scan = scan or make_scan_plan(seed, seed // 4, tier)
    rng = random.Random('C18-scan-run/%d' % seed)
    cold = scan['config']['scan']['cold']
    prof = _in_child(child_profile, scan)
    stats = {'scan.plans': 1, 'scan.cold' if cold else ('scan.systematic' if scan['config']['scan'].get('systematic') else 'scan.warm'): 1}
    res = {'violation': None, 'harness_error': None, 'digest': '', 'steps': 0, 'nontrivial': False,
           'switch_digest': '', 'switches': 0, 'nontrivial_switches': 0, 'stats': stats}
    if prof[0] != 'ok':
        res['harness_error'] = 'profile child failed: %s' % prof[1]
        return scan, res
    prof = prof[1]
    dig = hashlib.sha1()
    last_plan = scan
    budget = {'directed': scan['config']['scan']['max_attempts'], 'interrupts': scan['config']['scan']['max_attempts'] // 2}
    for op, pr in zip(scan['threads'][0], prof):
        if _late():
            break
        stats['scan.calls_profiled'] = stats.get('scan.calls_profiled', 0) + 1
        stats['scan.lines_profiled'] = stats.get('scan.lines_profiled', 0) + pr['steps']
        res['steps'] += pr['steps']
        if pr['error']:
            res['harness_error'] = 'profile run: %s' % pr['error']
            return scan, res
        events = pr['events']
        dig.update(repr((pr['steps'], [e[0] for e in events], sorted(e[1] for e in events))).encode())
        if not events:
            continue
        if not cold:
            stats['scan.warm_calls_with_writes'] = stats.get('scan.warm_calls_with_writes', 0) + 1
            if len(scan['threads'][0]) > 1:
                # exact step numbers: the call alone, from the start state the directed runs will have
                single = dict(scan, threads=[[op]])
                p1 = _in_child(child_profile, single)
                if p1[0] != 'ok' or p1[1][0]['error']:
                    res['harness_error'] = 'profile child failed: %r' % (p1[1],)
                    return scan, res
                events = p1[1][0]['events'] or events
        n_first_use = sum(1 for e in events if e[1].startswith(FIRST_USE_LABELS))
        stats['scan.first_use_writes'] = stats.get('scan.first_use_writes', 0) + n_first_use
        stats['scan.other_writes'] = stats.get('scan.other_writes', 0) + len(events) - n_first_use
        for e in events:
            if not e[1].startswith(FIRST_USE_LABELS):
                k = 'scan.write:%s' % e[1].split(' (within')[0][:70]
                stats[k] = stats.get(k, 0) + 1
        cfg = dict(scan['config'], first=0, newline_p=0.0)
        cfg.pop('scan')
        cfg['directed'] = True
        base = {'sim': 'threadsim', 'seed': seed, 'config': cfg, 'threads': [[dict(op)], [dict(op)]], 'switches': [], 'more': []}
        other = dict(base, threads=[[dict(op)], [dict(_scan_op(rng, op['v']), k=op['k'])]])
        ref = _in_child(child_reference, base)
        ref_other = None
        ref_flip = None
        # (the attempts are a budget of the plan, not of the call: the same write - e.g. the warnings filter
        # around every string literal - shows up in every call of a chunk)
        for a, (strat, s, pre) in enumerate(directed_prefixes(events, rng, max(2, budget['directed']))):
            budget['directed'] -= 1
            if _late():
                stats['scan.cut_short_by_deadline'] = 1
                break
            use_other = strat == 'S1' and a % 3 == 2
            if use_other and ref_other is None:
                ref_other = _in_child(child_reference, other)
            p = copy.deepcopy(other if use_other else base)
            p['switches'] = [list(x) for x in pre]
            p['config']['directed_at'] = [strat, s]
            reference = ref_other if use_other else ref
            if a % 2 == 1 and not use_other:
                # every other attempt with the opposite warnings configuration (-W error on / off)
                p['config']['warn_error'] = not base['config'].get('warn_error')
                if ref_flip is None:
                    ref_flip = _in_child(child_reference, dict(base, config=dict(base['config'], warn_error=p['config']['warn_error'])))
                reference = ref_flip
            r = evaluate(p, True, seed * 131 + a, reference=reference)
            stats['scan.directed_runs'] = stats.get('scan.directed_runs', 0) + 1
            stats['lock.contended'] = stats.get('lock.contended', 0) + r.get('stats', {}).get('lock.contended', 0)
            last_plan = p
            if r['harness_error']:
                res['harness_error'] = r['harness_error']
                return p, res
            for k in ('steps', 'switches', 'nontrivial_switches'):
                res[k] += r.get(k, 0)
            res['nontrivial'] = res['nontrivial'] or r['nontrivial']
            dig.update(r['digest'].encode())
            if r['violation'] is not None:
                res['violation'] = r['violation']
                res['digest'] = r['digest']
                return p, res
        # directed interrupts: the call is aborted (KeyboardInterrupt) right at / before a write event; the
        # other thread's identical call, and both calls once more afterwards, must be unaffected
        steps_seen = []
        for e in events:
            if e[0] not in steps_seen:
                steps_seen.append(e[0])
        cand = [(st, off) for off in (0, -1, 1) for st in steps_seen[:6]]
        for a, (st, off) in enumerate(cand[:max(1, budget['interrupts'])]):
            budget['interrupts'] -= 1
            if _late() or st + off < 1:
                break
            p = copy.deepcopy(base)
            p['config']['aborts'] = {'0.0': st + off}
            p['config']['directed_at'] = ['interrupt', st + off]
            p['switches'] = [[INF, 0]]
            r = evaluate(p, True, seed * 131 + 50 + a, reference=ref)
            stats['scan.directed_interrupts'] = stats.get('scan.directed_interrupts', 0) + 1
            last_plan = p
            if r['harness_error']:
                res['harness_error'] = r['harness_error']
                return p, res
            for k in ('steps', 'switches', 'nontrivial_switches'):
                res[k] += r.get(k, 0)
            dig.update(r['digest'].encode())
            if r['violation'] is not None:
                res['violation'] = r['violation']
                res['digest'] = r['digest']
                return p, res
    res['digest'] = dig.hexdigest()
    return last_plan, res


def run_cross(seed, tier):
    """Two *different* calls, each profiled alone: a warm one on one version and a cold one (first use
    of another version).  For pairs of write events (one of each call) thread 0 is parked in its window,
    thread 1 runs into its own window, thread 0 runs to its end, then thread 1 - and the same with the
    roles swapped.  This is the schedule that two separately protected critical sections over the same
    process-wide value need (enter A, enter B, leave A, leave B)."""
    import copy
    rng = random.Random('C18-cross/%d' % seed)
    v_cold, v_warm = rng.sample(corpus.VERSIONS, 2)
    texts = STATEFUL_TEXTS + corpus.SNIPPETS
    a = {'k': rng.choice(['errors', 'errors', 'pep8', 'custom']), 'v': v_warm,
         'text': rng.choice([STATEFUL_TEXTS[-1], scan_chunks()[rng.randrange(len(scan_chunks()))], rng.choice(texts)])}
    b = {'k': rng.choice(['load', 'errors', 'loadpath', 'tokenize', 'pep8']), 'v': v_cold, 'text': rng.choice(texts)}
    cfg = {'quantum': rng.choice([30, 300, 3000]), 'warm': [v_warm], 'first': 0, 'sequential': False, 'perm': None, 'rounds': 1,
           'pgen_atomic': False, 'burst': 0, 'newline_p': 0.0, 'freeze_p': 0.0, 'warn_error': rng.random() < 0.3, 'cross': True}
    base = {'sim': 'threadsim', 'seed': seed, 'config': cfg, 'threads': [[a], [b]], 'switches': [], 'more': []}
    stats = {'scan.plans': 1, 'scan.cross': 1}
    res = {'violation': None, 'harness_error': None, 'digest': '', 'steps': 0, 'nontrivial': False,
           'switch_digest': '', 'switches': 0, 'nontrivial_switches': 0, 'stats': stats}
    profs = []
    for op in (a, b):
        pr = _in_child(child_profile, dict(base, threads=[[op]]))
        if pr[0] != 'ok' or pr[1][0]['error']:
            res['harness_error'] = 'profile child failed: %r' % (pr[1],)
            return base, res
        profs.append(pr[1][0])
        stats['scan.calls_profiled'] = stats.get('scan.calls_profiled', 0) + 1
        stats['scan.lines_profiled'] = stats.get('scan.lines_profiled', 0) + pr[1][0]['steps']
        res['steps'] += pr[1][0]['steps']
    dig = hashlib.sha1(repr([(p['steps'], [e[0] for e in p['events']]) for p in profs]).encode())

    def picks(events, n):
        by_loc = {}
        for (step, lab, fn, line) in events:
            by_loc.setdefault((lab.split(' (within')[0].split(' (')[0], fn, line), []).append(step)
        out = []
        for i in range(3):
            for key, steps in by_loc.items():
                if i < len(steps) and steps[i * (len(steps) // 3 or 1) % len(steps)] not in out:
                    out.append(steps[i * (len(steps) // 3 or 1) % len(steps)])
        return out[:n]
    ea, eb = picks(profs[0]['events'], 4), picks(profs[1]['events'], 4)
    if not ea or not eb:
        res['digest'] = dig.hexdigest()
        return base, res
    ref = _in_child(child_reference, base)
    limit = 2 if os.environ.get('VERIF_LIGHT') else (8 if tier == 'quick' else 16)
    pairs = [(x, y, first) for x in ea for y in eb for first in (0, 1)]
    rng.shuffle(pairs)
    last = base
    for n, (sa, sb, first) in enumerate(pairs[:limit]):
        if n >= 2 and _late():
            break                                  # (the first two pairs are run even on a loaded machine)
        p = copy.deepcopy(base)
        p['config']['first'] = first
        p['config']['directed_at'] = ['cross', sa, sb, first]
        p['switches'] = [[sa, 0], [sb, 0], [INF, 0]] if first == 0 else [[sb, 0], [sa, 0], [INF, 0]]
        r = evaluate(p, True, seed * 131 + n, reference=ref)
        stats['scan.cross_runs'] = stats.get('scan.cross_runs', 0) + 1
        last = p
        if r['harness_error']:
            res['harness_error'] = r['harness_error']
            return p, res
        for k in ('steps', 'switches', 'nontrivial_switches'):
            res[k] += r.get(k, 0)
        res['nontrivial'] = res['nontrivial'] or r['nontrivial']
        dig.update(r['digest'].encode())
        if r['violation'] is not None:
            res['violation'] = r['violation']
            res['digest'] = r['digest']
            return p, res
    res['digest'] = dig.hexdigest()
    return last, res


# ---------------------------------------------------------------------------
# one run + oracle
# ---------------------------------------------------------------------------
def evaluate(plan, generate, seed, reference=None):
    """Fork R and C, compare.  Returns dict(violation|None, digest, stats...)."""
    r = reference if reference is not None else _in_child(child_reference, plan)
    c = _in_child(child_concurrent, plan, generate, seed)
    if r[0] != 'ok' or c[0] != 'ok':
        return {'violation': None, 'harness_error': 'child failed: %s / %s' % (r[1] if r[0] != 'ok' else '',
                                                                                 c[1] if c[0] != 'ok' else ''),
                'digest': '', 'steps': 0, 'nontrivial': False, 'switch_digest': ''}
    r, c = r[1], c[1]
    if generate:
        plan['switches'] = c['switches']
        plan['more'] = c['more']
    v = None
    if c['step_cap']:
        v = {'clause': 'livelock', 'sig': 'livelock', 'detail': 'an op exceeded the step cap under interleaving'}
    elif c.get('deadlock'):
        v = {'clause': 'deadlock', 'sig': 'deadlock', 'detail': 'every thread waits for a lock of parso (%s)' % c['error']}
    elif c['error']:
        return {'violation': None, 'harness_error': c['error'], 'digest': '', 'steps': c['steps'],
                'nontrivial': False, 'switch_digest': ''}
    if v is None:
        for ckey in sorted(c['outcomes']):
            key = ckey.split('#')[0]
            a, b = r['outcomes'].get(key), c['outcomes'][ckey]
            if b == ('aborted',):
                continue                 # the call was interrupted on purpose
            if a != b:
                t, j = key.split('.')
                op = plan['threads'][int(t)][int(j)]
                v = {'clause': 'outcome-differs', 'sig': 'outcome-differs:%s' % op['k'],
                     'detail': 'op %s %s(%s) %r: sequential reference %s | under this schedule (round %s) %s'
                               % (key, op['k'], op['v'], op.get('text', '')[:60], _short(a),
                                  ckey.partition('#')[2] or '0', _short(b))}
                break
        if v is None and not set(r['outcomes']) <= set(c['outcomes']):
            v = {'clause': 'outcome-differs', 'sig': 'outcome-missing',
                 'detail': 'calls without an outcome under the schedule: %s'
                           % sorted(set(r['outcomes']) - set(c['outcomes']))[:5]}
    if v is None and c.get('recovery') is not None:
        for key in sorted(c['recovery']):
            a, b = r['outcomes'].get(key), c['recovery'][key]
            if a != b:
                t, j = key.split('.')
                op = plan['threads'][int(t)][int(j)]
                v = {'clause': 'after-interrupt-differs', 'sig': 'after-interrupt-differs:%s' % op['k'],
                     'detail': 'after call(s) %s had been interrupted (KeyboardInterrupt at a traced line), op %s %s(%s) %r: '
                               'sequential reference %s | now %s' % (c.get('aborted'), key, op['k'], op['v'],
                                                                    op.get('text', '')[:60], _short(a), _short(b))}
                break
    if v is None:
        for key in sorted(r['outcomes']):
            if r['outcomes'][key] != r['outcomes2'][key]:
                t, j = key.split('.')
                op = plan['threads'][int(t)][int(j)]
                v = {'clause': 'second-call-differs', 'sig': 'second-call-differs:%s' % op['k'],
                     'detail': 'op %s %s(%s) %r gives %s on the first and %s on a later call in the same process'
                               % (key, op['k'], op['v'], op.get('text', '')[:60], _short(r['outcomes'][key]),
                                  _short(r['outcomes2'][key]))}
                break
    if v is None:
        # First-use memoisation is allowed: a global or class attribute that goes from None to a value,
        # a table that only gains entries.  A value that is replaced, or a container that loses or
        # alters elements, was modified by the calls.  A deep fingerprint that changed (outside the two
        # modules that hold the loaded grammars and the token collections) without any change among the
        # named globals / class attributes of any module is reported too.
        if r['destructive']:
            keys = [k for k, _ in r['destructive']]
            v = {'clause': 'state-modified-by-calls', 'sig': 'state-modified-by-calls:' + ','.join(keys)[:80],
                 'detail': 'the calls modified shared state beyond first-use memoisation: %s' % (r['destructive'][:6],)}
        else:
            # (the deep fingerprint of a module covers the classes it refers to, wherever they are
            # defined: a named change anywhere explains deep changes everywhere)
            changed = sorted(k for k in r['fp1'] if r['fp0'].get(k) != r['fp1'][k] and k not in FIRST_USE_MODULES)
            if changed and not r['shallow_changed']:
                v = {'clause': 'state-modified-by-calls', 'sig': 'state-modified-by-calls:' + ','.join(changed)[:80],
                     'detail': 'the calls changed shared state of %s (not explained by first-use memoisation of a named '
                               'global or class attribute)' % (changed,)}
    if v is None and r['fp1'] != r['fp2']:
        diff = sorted(k for k in r['fp1'] if r['fp1'][k] != r['fp2'].get(k))
        v = {'clause': 'state-not-write-once', 'sig': 'state-not-write-once:' + ','.join(diff)[:80],
             'detail': 'repeating the same calls changed shared state of %s' % diff}
    if v is None and r['fp1'] != c['fp']:
        diff = sorted(k for k in r['fp1'] if r['fp1'][k] != c['fp'].get(k))
        v = {'clause': 'shared-state-differs', 'sig': 'shared-state-differs:' + ','.join(diff)[:80],
             'detail': 'shared state after the interleaved execution differs from the sequential one in %s' % diff}
    tr = c['trace']
    sd = hashlib.sha1(repr(tr).encode()).hexdigest()
    digest = hashlib.sha1(repr((tr, sorted(c['outcomes'].items()), c['steps'])).encode()).hexdigest()
    return {'violation': v, 'harness_error': None, 'digest': digest, 'steps': c['steps'],
            'nontrivial': c['nontrivial_switches'] > 0, 'switch_digest': sd, 'switches': len(tr),
            'nontrivial_switches': c['nontrivial_switches'], 'stats': {'lock.contended': c.get('lock_contended', 0)}}


def _short(o):
    s = repr(o)
    return s if len(s) < 160 else s[:157] + '...'


def run_seed(seed, tier):
    if seed % 4 == 3 and (seed // 4) % 6 == 5:
        return run_cross(seed, tier)
    if seed % 4 == 3:
        return run_scan(seed, tier)
    plan = make_plan(seed, tier)
    attempts = plan['config'].get('attempts', 1)
    if attempts <= 1:
        return plan, evaluate(plan, True, seed)
    # A first-use race can happen only once per process: the same calls get several schedules, each
    # in its own fresh child; the sequential reference is computed once.  Every attempt is a plan of
    # its own (its recorded switch list makes it replayable alone).
    import copy
    ref = _in_child(child_reference, plan)
    total = None
    for a in range(attempts):
        if a and _late():
            break
        p = copy.deepcopy(plan)
        p['config']['attempt'] = a
        res = evaluate(p, True, seed * 131 + a, reference=ref)
        if total is not None and not res['harness_error']:
            for k in ('steps', 'switches', 'nontrivial_switches'):
                res[k] = res.get(k, 0) + total.get(k, 0)
            res['nontrivial'] = res['nontrivial'] or total['nontrivial']
        if res['violation'] is not None or res['harness_error']:
            return p, res
        total = res
    return p, res


def replay_plan(plan):
    import copy
    return evaluate(copy.deepcopy(plan), False, plan.get('seed', 0))


# ---------------------------------------------------------------------------
# shrinking
# ---------------------------------------------------------------------------
def shrink(plan, sig, budget_runs=150, budget_s=120):
    import copy
    t0 = time.time()
    runs = [0]
    best = copy.deepcopy(plan)

    def test(p):
        if runs[0] >= budget_runs or time.time() - t0 > budget_s:
            return False
        runs[0] += 1
        res = replay_plan(p)
        return res['violation'] is not None and res['violation']['sig'] == sig

    # fewer rounds
    while best['config'].get('rounds', 1) > 1:
        cand = copy.deepcopy(best)
        cand['config']['rounds'] -= 1
        cand['more'] = cand.get('more', [])[:cand['config']['rounds'] - 1]
        if test(cand):
            best = cand
        else:
            break
    if best['config'].get('aborts'):
        cand = copy.deepcopy(best)
        cand['config']['aborts'] = {}
        if test(cand):
            best = cand                  # not about the interrupt at all
    keep_shape = bool(best['config'].get('aborts'))      # 't.j' keys of the interrupts must stay valid
    # drop whole threads
    i = 0
    while not keep_shape and i < len(best['threads']) and len(best['threads']) > 1:
        cand = copy.deepcopy(best)
        del cand['threads'][i]
        cand['config']['first'] = 0
        if test(cand):
            best = cand
        else:
            i += 1
    # drop ops
    for t in range(len(best['threads']) if not keep_shape else 0):
        j = 0
        while j < len(best['threads'][t]) and len(best['threads'][t]) > 1:
            cand = copy.deepcopy(best)
            del cand['threads'][t][j]
            if test(cand):
                best = cand
            else:
                j += 1
    # fewer context switches: drop switch entries (merge quanta), ddmin style
    sw = best['switches']
    n = 2
    while len(sw) > 0:
        chunk = max(1, len(sw) // n)
        reduced = False
        i = 0
        while i < len(sw):
            cand_sw = sw[:i] + sw[i + chunk:]
            if i > 0 and i < len(sw):
                # removing switches: give their steps to the predecessor so later switches keep their place
                cand_sw = [list(x) for x in cand_sw]
                cand_sw[i - 1][0] += sum(x[0] for x in sw[i:i + chunk])
            cand = copy.deepcopy(best)
            cand['switches'] = cand_sw
            if test(cand):
                best = cand
                sw = best['switches']
                reduced = True
            else:
                i += chunk
        if chunk == 1:
            break
        if not reduced:
            n = min(len(sw), n * 2)
        if runs[0] >= budget_runs or time.time() - t0 > budget_s:
            break
    # shorter texts
    for t in range(len(best['threads'])):
        for j in range(len(best['threads'][t])):
            text = best['threads'][t][j].get('text')
            if not text:
                continue
            lines = text.split('\n')
            i = 0
            while i < len(lines) and len(lines) > 1:
                cand = copy.deepcopy(best)
                cand['threads'][t][j]['text'] = '\n'.join(lines[:i] + lines[i + 1:])
                if test(cand):
                    best = cand
                    lines = lines[:i] + lines[i + 1:]
                else:
                    i += 1
    if best['config'].get('warm'):
        cand = copy.deepcopy(best)
        cand['config']['warm'] = []
        if test(cand):
            best = cand
    return best, runs[0]


# ---------------------------------------------------------------------------
# batch / check
# ---------------------------------------------------------------------------
_DEADLINE = [None]


def _late():
    return _DEADLINE[0] is not None and time.time() > _DEADLINE[0]


def _worker(args):
    tier, seeds, deadline = args
    _DEADLINE[0] = deadline
    import faulthandler
    faulthandler.dump_traceback_later(550, exit=True)
    out = {'runs': 0, 'digests': {}, 'violations': [], 'harness': [], 'steps': 0, 'switches': 0,
           'nontrivial_switches': 0, 'samples': [], 'seeds': [], 'counters': {}}
    for seed in seeds:
        if time.time() > deadline:
            break
        plan, res = run_seed(seed, tier)
        if res['harness_error']:
            out['harness'].append('seed %d: %s' % (seed, res['harness_error'][:500]))
            continue
        out['runs'] += 1
        out['seeds'].append(seed)
        out['steps'] += res['steps']
        out['switches'] += res['switches']
        out['counters']['schedules'] = out['counters'].get('schedules', 0) + plan['config'].get('rounds', 1)
        out['nontrivial_switches'] += res['nontrivial_switches']
        c = out['counters']
        for k, v in res.get('stats', {}).items():
            c[k] = c.get(k, 0) + v
        key = 'threads=%d' % len(plan['threads'])
        c[key] = c.get(key, 0) + 1
        key = 'quantum=%d' % plan['config']['quantum']
        c[key] = c.get(key, 0) + 1
        key = 'cold' if not plan['config']['warm'] else 'warm'
        c[key] = c.get(key, 0) + 1
        for th in plan['threads']:
            for op in th:
                c['op.' + op['k']] = c.get('op.' + op['k'], 0) + 1
        if res['nontrivial'] or plan['config']['sequential']:
            out['digests'][res['digest']] = seed
        if len(out['samples']) < 1 and res['nontrivial']:
            out['samples'].append({'seed': seed, 'config': plan['config'],
                                   'threads': [[{k: (v if k != 'text' else v[:50]) for k, v in op.items()}
                                                for op in th] for th in plan['threads']],
                                   'switches_first_20': plan['switches'][:20], 'n_switches': res['switches'],
                                   'traced_line_steps': res['steps']})
        if res['violation'] is not None:
            out['violations'].append({'seed': seed, 'plan': plan, 'violation': res['violation'],
                                      'digest': res['digest']})
            if len(out['violations']) >= 2:
                break
    faulthandler.cancel_dump_traceback_later()
    return out


def digest_batch(tier, seeds):
    out = []
    for s in seeds:
        plan, res = run_seed(s, tier)
        if s % 4 == 3 and res['violation'] is None:
            res2 = run_seed(s, tier)[1]          # a scan / cross plan: profile + directed runs, executed twice
        else:
            res2 = replay_plan(plan)
        out.append((s, res['digest'], res2['digest'], res['violation'] and res['violation']['sig']))
    return out


def selftest(tier, base_seed, n):
    import subprocess
    seeds = [base_seed * 1_000_000 + 500_000 + i + (4 if (500_000 + i) % 12 == 3 else 0) for i in range(n)]   # (no systematic scan plan: 4 x 20 s)
    procs = []
    for hs in ('0', '12345'):
        env = dict(os.environ, PYTHONHASHSEED=hs, VERIF_LIGHT='1')      # (scan plans with two directed attempts)
        procs.append(subprocess.Popen([sys.executable, os.path.join(VERIF, 'check.py'), 'digest', 'C18', tier,
                                       ','.join(map(str, seeds))], env=env, stdout=subprocess.PIPE,
                                      stderr=subprocess.PIPE, text=True))
    outs = []
    for p in procs:
        try:
            o, e = p.communicate(timeout=900)
        except subprocess.TimeoutExpired:
            p.kill()
            return False, 'self-test child timed out'
        if p.returncode != 0:
            return False, 'self-test child failed: %s' % e[-800:]
        outs.append(json.loads(o.strip().splitlines()[-1]))
    for x, y in zip(*outs):
        if x != y:
            return False, 'schedules differ between two fresh interpreters for seed %s: %r vs %r' % (x[0], x, y)
        if x[1] != x[2]:
            return False, 'replay of the recorded schedule diverges from the generating run for seed %s' % x[0]
    return True, '%d seeds x 2 interpreters (PYTHONHASHSEED 0 / 12345) x (generate, replay): identical digests ' \
                 '(switch trace + outcomes + step count)' % n


RULE = ("one case = one seeded plan (2-8 caller threads or 1 thread with permuted/repeated calls, 1-4 ops each on "
        "1-3 shared grammar versions, cold or warm start, a switch list [(steps, next thread)] with geometric quanta "
        "of mean 3..3000 traced lines) executed twice: sequentially in a pristine forked process and under the "
        "scheduler in another; non-trivial = at least one context switch happened while both the pre-empted and the "
        "resumed thread were inside a parso call (or the plan is a sequential history run); distinct = distinct sha1 "
        "of (switch trace, outcomes, step count)")


def run_check(tier, base_seed, wall, workers, do_selftest):
    from .runner import load_known, match_known
    wall = wall if wall is not None else (75 if tier == 'quick' else 900)
    print('check C18 tier=%s VERIF_SEED=%d wall=%ds repo=%s' % (tier, base_seed, wall,
                                                               os.environ.get('VERIF_REPO', '/repo')))
    import parso  # noqa: pristine image = parso imported, nothing used
    _custom_grammar_file()
    st_msg = 'skipped'
    if do_selftest:
        ok, st_msg = selftest(tier, base_seed, 6 if tier == 'quick' else 32)
        print('determinism self-test: %s' % st_msg)
        if not ok:
            print('HARNESS-ERROR: %s' % st_msg)
            return 2
    workers = workers or min(16, os.cpu_count() or 4)
    t0 = time.time()
    deadline = t0 + wall
    agg = {'runs': 0, 'digests': {}, 'violations': [], 'harness': [], 'steps': 0, 'switches': 0,
           'nontrivial_switches': 0, 'samples': [], 'counters': {}, 'lost': [], 'first': None, 'last': None}
    chunk = 6

    def tasks():
        # two streams: chunks of consecutive seeds (random plans, cold sweep, random warm scans) and, as every
        # third task, in turn the next systematic scan plan, the next cold scan plan and the next cross plan,
        # each on its own, so that the directed parts advance at a fixed share of the budget
        lo = base_seed * 1_000_000
        sys_seed = lo + (3 - lo) % 12           # systematic scan plans: seeds = 3 mod 12
        cross_seed = lo + (23 - lo) % 24        # cross plans: seeds = 23 mod 24
        cold_seed = lo + (11 - lo) % 24         # cold scan plans: seeds = 11 mod 24
        n = 0
        while True:
            n += 1
            if n % 3 == 0:
                which = (n // 3) % 3
                if which == 1:
                    yield (tier, [sys_seed], deadline)
                    sys_seed += 12
                elif which == 2:
                    yield (tier, [cold_seed], deadline)
                    cold_seed += 24
                else:
                    yield (tier, [cross_seed], deadline)
                    cross_seed += 24
            else:
                yield (tier, [x for x in range(lo, lo + chunk) if x % 12 != 3 and x % 24 not in (11, 23)], deadline)
                lo += chunk

    def on_result(task, r, err):
        if err is not None:
            agg['lost'].append('seeds %d..%d: %s' % (task[1][0], task[1][-1], err[:300]))
            return
        for k in ('runs', 'steps', 'switches', 'nontrivial_switches'):
            agg[k] += r[k]
        agg['digests'].update(r['digests'])
        agg['violations'].extend(r['violations'])
        agg['harness'].extend(r['harness'])
        for k, v in r['counters'].items():
            agg['counters'][k] = agg['counters'].get(k, 0) + v
        for s in r['samples']:
            if len(agg['samples']) < 3:
                agg['samples'].append(s)
        if r['seeds']:
            agg['first'] = min(r['seeds']) if agg['first'] is None else min(agg['first'], min(r['seeds']))
            agg['last'] = max(r['seeds']) if agg['last'] is None else max(agg['last'], max(r['seeds']))

    pool.fork_map(_worker, tasks(), workers, task_timeout=600, on_result=on_result,
                  keep_going=lambda: time.time() < deadline and len(agg['violations']) < 4 and len(agg['harness']) < 10)
    wall_used = time.time() - t0
    known = load_known()
    os.makedirs(os.path.join(VERIF, 'replays'), exist_ok=True)
    new = 0
    seen = set()
    shrink_deadline = time.time() + 200          # all shrinking together
    for v in agg['violations']:
        sig = v['violation']['sig']
        k = match_known('C18', v['violation'], known)
        if k is not None:
            if sig not in seen:
                print('KNOWN-FINDING: property=C18 %s' % k['what'])
                seen.add(sig)
            continue
        if sig in seen:
            continue
        seen.add(sig)
        left = shrink_deadline - time.time()
        if left > 15:
            small, nruns = shrink(v['plan'], sig, budget_runs=120, budget_s=min(90, left))
        else:
            small, nruns = v['plan'], 0
        res = replay_plan(small)
        if res['violation'] is None or res['violation']['sig'] != sig:
            small, res = v['plan'], replay_plan(v['plan'])
        path = os.path.join(VERIF, 'replays', 'C18-%d.json' % v['seed'])
        with open(path, 'w') as f:
            json.dump({'optimize': bool(sys.flags.optimize), 'property': 'C18', 'seed': v['seed'], 'violation': res['violation'] or v['violation'],
                       'digest': res['digest'], 'shrink_runs': nruns, 'plan': small}, f, indent=1)
        print('VIOLATION property=C18 replay=%s' % path)
        print('  clause=%s detail=%s' % (v['violation']['clause'], (res['violation'] or v['violation'])['detail'][:400]))
        new += 1
    ev = {
        'property_id': 'C18', 'tier': tier, 'seed': base_seed, 'level': 'exploration',
        'coverage': {
            'evaluations': agg['runs'], 'distinct_nontrivial': len(agg['digests']), 'rule': RULE,
            'samples': agg['samples'][:3], 'seed_range': [agg['first'], agg['last']],
            'runs_per_hour': int(agg['runs'] / wall_used * 3600) if wall_used else 0,
            'traced_line_steps': agg['steps'], 'context_switches': agg['switches'],
            'switches_with_both_threads_inside_parso': agg['nontrivial_switches'],
            'mix': dict(sorted(agg['counters'].items())),
            'determinism_selftest': st_msg,
            'fault_kinds': 'pre-emption at any traced source line of parso (the only fault this property is about); '
                           'cold start (first use races) vs warm start',
            'real_code': ['all of parso (tokenizer, parser, error finder, PEP 8 normalizer, grammar loading)'],
            'stubs': ['thread scheduling (real threads, one runnable at a time, switch points from the plan)',
                      "lock objects among parso's module globals / class attributes (stand-ins: acquire is a scheduling point)",
                      'hash of pgen2 NFAState objects (creation number instead of address: fixes the iteration order of the table generation)'],
            'atomic': ['pgen2._make_dfas and _simplify_dfas (one step each; the rest of the table generation is traced since round 8; with the pgen_atomic knob a whole generate_grammar call is one step)',
                       'C calls / single bytecodes (GIL)'],
            'harness_errors': agg['harness'][:5], 'lost_tasks': agg['lost'][:5],
        },
        'interpreter': {'optimize': bool(sys.flags.optimize), 'note': 'odd VERIF_SEED values run the whole check under python -O'},
        'assumptions': ['pre-emption granularity is a source line of parso; C-level races without the GIL are out of scope',
                        'inside the simulation NFA states of the parser generator hash by creation number',
                        'reference = the same calls executed sequentially in a pristine forked interpreter'],
        'wall_s': round(wall_used, 1), 'violations': new,
    }
    from .runner import evidence_path
    with open(evidence_path('C18'), 'w') as f:
        json.dump(ev, f, indent=1, default=str)
    print('runs=%d distinct_nontrivial=%d traced_steps=%d switches=%d (both inside parso: %d) wall=%.1fs (%.0f runs/h)'
          % (agg['runs'], len(agg['digests']), agg['steps'], agg['switches'], agg['nontrivial_switches'], wall_used,
             agg['runs'] / wall_used * 3600 if wall_used else 0))
    if agg['harness'] or len(agg['lost']) > 3:
        for h in (agg['harness'] + agg['lost'])[:5]:
            print('HARNESS-ERROR: %s' % h)
        return 1 if new else 2
    if agg['runs'] == 0:
        print('HARNESS-ERROR: no runs executed')
        return 2
    return 1 if new else 0


def replay(rp):
    res = replay_plan(rp['plan'])
    print('replay: digest %s (recorded %s)' % (res['digest'], rp.get('digest')))
    if res['harness_error']:
        print('HARNESS-ERROR: %s' % res['harness_error'])
        return 2
    v = res['violation']
    if v is None:
        print('no violation reproduced')
        return 0
    print('VIOLATION property=C18 replay=<this file>')
    print('  clause=%s sig=%s' % (v['clause'], v['sig']))
    print('  detail=%s' % v['detail'])
    print('  reproduces the recorded violation exactly: %s' % (
        bool(rp.get('violation')) and rp['violation']['sig'] == v['sig'] and rp.get('digest') == res['digest']))
    return 1
