"""In-memory POSIX-like file system + global dispatch of os / io entry points.

Everything under ROOT is served from a SimFS instance (the one registered with
`activate`), everything else goes to the real function.  SimFS itself is a
plain data structure with POSIX semantics for the calls parso (and plausible
refactorings of parso) make: independent offsets per open file, open files keep
their inode over unlink/replace, truncate-on-open, mode bits for the owner,
strict atime, mtime stamped from a simulated clock at a configurable
granularity.

Every public operation first calls `fs.hook(kind, path, info)` (if set).  The
hook is the *seam step*: the simulator logs it, may run other actors, may raise
(injected error / crash) or may return a Directive asking for a crash after the
call or for a short / torn write.
"""
import builtins
import errno
import io
import math
import os
import shutil
import stat as statmod

ROOT = '/__simfs__'
FD_BASE = 1 << 20


class HarnessError(BaseException):
    """The harness (not parso) met something it does not model."""


class Directive:
    __slots__ = ('after', 'limit', 'then')

    def __init__(self, after=None, limit=None, then=None):
        self.after = after      # exception to raise after the call was executed
        self.limit = limit      # write: persist at most this many bytes ...
        self.then = then        # ... and then raise this (None: plain short write)


class Node:
    __slots__ = ('is_dir', 'data', 'children', 'mtime', 'atime', 'mode', 'ino',
                 'dirty', 'durable', 't_used', 'link')

    def __init__(self, is_dir, now, mode, ino):
        self.is_dir = is_dir
        self.data = b''
        self.children = {} if is_dir else None
        self.mtime = self.atime = now
        self.mode = mode
        self.ino = ino
        self.dirty = True        # changed since the last simulated write-back
        self.durable = None      # bytes on "disk" at the last write-back (None: did not exist)
        self.link = None         # symlink target (absolute simulated path) or None
        self.t_used = now        # when the content was really last read or written (oracle side;
                                 # not affected by utime())


def _err(code, path, cls=OSError):
    return cls(code, os.strerror(code), str(path))


def _enoent(path):
    return FileNotFoundError(errno.ENOENT, os.strerror(errno.ENOENT), str(path))


def _eacces(path):
    return PermissionError(errno.EACCES, os.strerror(errno.EACCES), str(path))


class SimFS:
    def __init__(self, clock, granularity=0.0, bufsize=8192, max_write=0, max_read=0):
        self.clock = clock            # callable -> float seconds
        self.gran = granularity       # 0: exact
        self.bufsize = bufsize
        self.max_write = max_write    # raw write persists at most this many bytes per call (0: all)
        self.max_read = max_read      # raw read returns at most this many bytes per call (0: all)
        self.hook = None
        self._ino = 1
        self.root = Node(True, self.stamp(), 0o755, 0)
        self.fds = {}                 # fake fd -> SimRaw
        self._next_fd = FD_BASE
        self.disk_free = None         # None: plenty; int: bytes left (disk-full state)
        self.counters = {}

    # ---------------------------------------------------------------- helpers
    def stamp(self):
        t = self.clock()
        if self.gran:
            t = math.floor(t / self.gran + 1e-9) * self.gran
        return t

    def _seam(self, kind, path, **info):
        h = self.hook
        if h is None:
            return None
        return h(kind, path, info)

    @staticmethod
    def parts(path):
        s = os.fspath(path)
        if isinstance(s, bytes):
            s = s.decode()
        if not s.startswith(ROOT):
            raise HarnessError('path outside the simulated root: %r' % (s,))
        return [x for x in s[len(ROOT):].split('/') if x and x != '.']

    def _walk(self, parts, path, follow_last=True):
        """Resolve path components physically: `..` pops to the real parent, symlinks are followed."""
        stack = [self.root]
        parts = list(parts)
        i = 0
        hops = 0
        while i < len(parts):
            p = parts[i]
            n = stack[-1]
            if not n.is_dir:
                raise _err(errno.ENOTDIR, path, NotADirectoryError)
            if not n.mode & 0o100:
                raise _eacces(path)
            if p == '..':
                if len(stack) > 1:
                    stack.pop()
                i += 1
                continue
            c = n.children.get(p)
            if c is None:
                raise _enoent(path)
            if c.link is not None and (i < len(parts) - 1 or follow_last):
                hops += 1
                if hops > 8:
                    raise _err(errno.ELOOP, path)
                parts = self.parts(c.link) + parts[i + 1:]
                stack = [self.root]
                i = 0
                continue
            stack.append(c)
            i += 1
        return stack[-1]

    def lookup(self, path):
        if isinstance(path, int):
            raw = self.fds.get(path)
            if raw is None:
                raise _err(errno.EBADF, path)
            return raw.node
        return self._walk(self.parts(path), path)

    def parent(self, path):
        parts = self.parts(path)
        if not parts:
            raise _err(errno.EEXIST, path, FileExistsError)
        par = self._walk(parts[:-1], path)
        if not par.is_dir:
            raise _err(errno.ENOTDIR, path, NotADirectoryError)
        if not par.mode & 0o100:
            raise _eacces(path)
        return par, parts[-1]

    def exists(self, path):
        try:
            self.lookup(path)
            return True
        except OSError:
            return False

    def _new(self, is_dir, mode):
        self._ino += 1
        return Node(is_dir, self.stamp(), mode, self._ino)

    def _stat_result(self, n):
        mode = (statmod.S_IFDIR if n.is_dir else statmod.S_IFREG) | n.mode
        size = 0 if n.is_dir else len(n.data)
        return os.stat_result((mode, n.ino, 1, 1, 1000, 1000, size, n.atime, n.mtime, n.mtime))

    # ------------------------------------------------- operations (seam steps)
    def stat(self, path, **kw):
        if kw.get('follow_symlinks') is False:
            return self.lstat(path)
        d = self._seam('stat', path)
        r = self._stat_result(self.lookup(path))
        if d and d.after:
            raise d.after
        return r

    def lstat(self, path, **kw):
        d = self._seam('stat', path)
        if isinstance(path, int):
            n = self.lookup(path)
        else:
            n = self._walk(self.parts(path), path, follow_last=False)
        if n.link is not None:
            r = os.stat_result((statmod.S_IFLNK | 0o777, n.ino, 1, 1, 1000, 1000, len(n.link), n.atime, n.mtime,
                                n.mtime))
        else:
            r = self._stat_result(n)
        if d and d.after:
            raise d.after
        return r

    def readlink(self, path, **kw):
        self._seam('readlink', path)
        n = self._walk(self.parts(path), path, follow_last=False)
        if n.link is None:
            raise _err(errno.EINVAL, path)
        return n.link

    def h_symlink(self, path, target):
        par, name = self.parent(path)
        n = self._new(False, 0o777)
        n.link = target
        par.children[name] = n
        return n

    def access(self, path, mode, **kw):
        self._seam('access', path)
        try:
            n = self.lookup(path)
        except OSError:
            return False
        want = 0
        if mode & os.R_OK:
            want |= 0o400
        if mode & os.W_OK:
            want |= 0o200
        if mode & os.X_OK:
            want |= 0o100
        return (n.mode & want) == want

    def mkdir(self, path, mode=0o777, **kw):
        d = self._seam('mkdir', path)
        par, name = self.parent(path)
        if name in par.children:
            raise _err(errno.EEXIST, path, FileExistsError)
        if not par.mode & 0o200:
            raise _eacces(path)
        par.children[name] = self._new(True, mode & 0o755)
        par.mtime = self.stamp()
        if d and d.after:
            raise d.after

    def rmdir(self, path, **kw):
        d = self._seam('rmdir', path)
        par, name = self.parent(path)
        n = par.children.get(name)
        if n is None:
            raise _enoent(path)
        if not n.is_dir:
            raise _err(errno.ENOTDIR, path, NotADirectoryError)
        if n.children:
            raise _err(errno.ENOTEMPTY, path)
        if not par.mode & 0o200:
            raise _eacces(path)
        del par.children[name]
        if d and d.after:
            raise d.after

    def listdir(self, path='.'):
        d = self._seam('listdir', path)
        n = self.lookup(path)
        if not n.is_dir:
            raise _err(errno.ENOTDIR, path, NotADirectoryError)
        if not n.mode & 0o400:
            raise _eacces(path)
        r = sorted(n.children)
        if d and d.after:
            raise d.after
        return r

    def scandir(self, path='.'):
        d = self._seam('scandir', path)
        n = self.lookup(path)
        if not n.is_dir:
            raise _err(errno.ENOTDIR, path, NotADirectoryError)
        if not n.mode & 0o400:
            raise _eacces(path)
        base = os.fspath(path)
        r = _ScandirIt([_DirEntry(self, base, k, n.children[k]) for k in sorted(n.children)])
        if d and d.after:
            raise d.after
        return r

    def remove(self, path, **kw):
        d = self._seam('remove', path)
        par, name = self.parent(path)
        n = par.children.get(name)
        if n is None:
            raise _enoent(path)
        if n.is_dir:
            raise _err(errno.EISDIR, path, IsADirectoryError)
        if not par.mode & 0o200:
            raise _eacces(path)
        del par.children[name]
        par.mtime = self.stamp()
        if d and d.after:
            raise d.after

    def replace(self, src, dst, **kw):
        d = self._seam('replace', dst, src=os.fspath(src))
        spar, sname = self.parent(src)
        dpar, dname = self.parent(dst)          # both parents are resolved before the source entry
        n = spar.children.get(sname)
        if n is None:
            raise _enoent(src)
        if not (spar.mode & 0o200 and dpar.mode & 0o200):
            raise _eacces(dst)
        if n.is_dir:
            stack = [n]
            while stack:                        # a directory cannot be moved into itself
                x = stack.pop()
                if x is dpar:
                    raise _err(errno.EINVAL, dst)
                stack.extend(c for c in x.children.values() if c.is_dir)
        old = dpar.children.get(dname)
        if old is not None and old is not n and old.is_dir:
            stack = [old]
            while stack:                        # the target is an ancestor of the source
                x = stack.pop()
                if x is spar:
                    raise _err(errno.ENOTEMPTY, dst)
                stack.extend(c for c in x.children.values() if c.is_dir)
        if old is not None and old is not n:
            if old.is_dir and not n.is_dir:
                raise _err(errno.EISDIR, dst, IsADirectoryError)
            if n.is_dir and not old.is_dir:
                raise _err(errno.ENOTDIR, dst, NotADirectoryError)
            if old.is_dir and old.children:
                raise _err(errno.ENOTEMPTY, dst)
        del spar.children[sname]
        dpar.children[dname] = n
        spar.mtime = dpar.mtime = self.stamp()
        if d and d.after:
            raise d.after

    def utime(self, path, times=None, *, ns=None, **kw):
        d = self._seam('utime', path)
        n = self.lookup(path)
        if ns is not None:
            times = (ns[0] / 1e9, ns[1] / 1e9)
        if times is None:
            n.atime = n.mtime = self.stamp()
        else:
            n.atime, n.mtime = float(times[0]), float(times[1])
        if d and d.after:
            raise d.after

    def chmod(self, path, mode, **kw):
        d = self._seam('chmod', path)
        self.lookup(path).mode = mode & 0o777
        if d and d.after:
            raise d.after

    def rmtree(self, path, ignore_errors=False, onerror=None, **kw):
        self._seam('rmtree', path)
        try:
            par, name = self.parent(path)
            if name not in par.children:
                raise _enoent(path)
            if not par.children[name].is_dir:
                raise _err(errno.ENOTDIR, path, NotADirectoryError)
            del par.children[name]
        except OSError:
            if not ignore_errors:
                raise

    # ---- files
    def open(self, path, mode='r', buffering=-1, encoding=None, errors=None,
             newline=None, closefd=True, opener=None):
        if isinstance(path, int):
            raw = self.fds.get(path)
            if raw is None:
                raise _err(errno.EBADF, path)
            return self._wrap(raw, mode, buffering, encoding, errors, newline)
        if opener is not None:
            raise HarnessError('open(opener=) is not modelled')
        m = set(mode)
        if not m <= set('rwxabt+U'):
            raise ValueError('invalid mode: %r' % mode)
        flags = 0
        if '+' in m:
            flags |= os.O_RDWR
        elif 'r' in m:
            flags |= os.O_RDONLY
        else:
            flags |= os.O_WRONLY
        if 'w' in m:
            flags |= os.O_CREAT | os.O_TRUNC
        elif 'x' in m:
            flags |= os.O_CREAT | os.O_EXCL
        elif 'a' in m:
            flags |= os.O_CREAT | os.O_APPEND
        raw = self._open_raw(path, flags, 0o666, 'open:' + ''.join(sorted(m - set('bt'))))
        return self._wrap(raw, mode, buffering, encoding, errors, newline)

    def _wrap(self, raw, mode, buffering, encoding, errors, newline):
        binary = 'b' in mode
        if buffering == 0:
            if not binary:
                raise ValueError("can't have unbuffered text I/O")
            return raw
        size = self.bufsize if buffering in (-1, 1) else buffering
        if raw._r and raw._w:
            buf = io.BufferedRandom(raw, size)
        elif raw._w:
            buf = io.BufferedWriter(raw, size)
        else:
            buf = io.BufferedReader(raw, size)
        if binary:
            return buf
        return io.TextIOWrapper(buf, encoding or 'utf-8', errors, newline,
                                line_buffering=(buffering == 1))

    def os_open(self, path, flags, mode=0o777, **kw):
        raw = self._open_raw(path, flags, mode, 'os.open')
        return raw.fd

    def _open_raw(self, path, flags, mode, kind):
        acc = flags & (os.O_RDONLY | os.O_WRONLY | os.O_RDWR)
        want_r = acc in (os.O_RDONLY, os.O_RDWR)
        want_w = acc in (os.O_WRONLY, os.O_RDWR)
        d = self._seam(kind, path, flags=flags)
        par, name = self.parent(path)
        n = par.children.get(name)
        hops = 0
        while n is not None and n.link is not None:       # the last component is a symlink: follow it
            hops += 1
            if hops > 8:
                raise _err(errno.ELOOP, path)
            par, name = self.parent(n.link)
            n = par.children.get(name)
        if n is None:
            if not flags & os.O_CREAT:
                raise _enoent(path)
            if not par.mode & 0o200:
                raise _eacces(path)
            if self.disk_free is not None and self.disk_free <= 0 and self._strict_full:
                raise _err(errno.ENOSPC, path)
            n = self._new(False, mode & 0o644)
            par.children[name] = n
            par.mtime = self.stamp()
        else:
            if flags & os.O_EXCL and flags & os.O_CREAT:
                raise _err(errno.EEXIST, path, FileExistsError)
            if n.is_dir:
                raise _err(errno.EISDIR, path, IsADirectoryError)
            if (want_r and not n.mode & 0o400) or (want_w and not n.mode & 0o200):
                raise _eacces(path)
            if flags & os.O_TRUNC and want_w:
                n.data = b''
                n.mtime = self.stamp()
                n.t_used = self.clock()
                n.dirty = True
        raw = SimRaw(self, n, os.fspath(path), want_r, want_w, bool(flags & os.O_APPEND))
        if self.on_open is not None:
            self.on_open(raw)
        if d and d.after:
            raw._closed_by_crash = True
            raise d.after
        return raw

    _strict_full = False

    # ---- direct (seam-less) helpers for the harness ----------------------
    def h_write(self, path, data, mtime=None, atomic=True):
        """Editor/corrupter write without seam steps.  atomic: new inode."""
        par, name = self.parent(path)
        old = par.children.get(name)
        if atomic or old is None:
            n = self._new(False, 0o644)
            par.children[name] = n
        else:
            n = old
        n.data = bytes(data)
        n.mtime = self.stamp() if mtime is None else mtime
        n.t_used = self.clock()
        n.dirty = True
        return n

    def h_mkdirs(self, path, mode=0o755):
        n = self.root
        for p in self.parts(path):
            c = n.children.get(p)
            if c is None:
                c = self._new(True, mode)
                n.children[p] = c
            n = c
        return n

    def h_remove(self, path):
        try:
            par, name = self.parent(path)
        except OSError:
            return False
        return par.children.pop(name, None) is not None

    def h_node(self, path):
        try:
            return self.lookup(path)
        except OSError:
            return None

    def h_files(self, path):
        """(name, node) of regular files directly under directory `path`."""
        n = self.h_node(path)
        if n is None or not n.is_dir:
            return []
        return [(k, n.children[k]) for k in sorted(n.children) if not n.children[k].is_dir]


class _ScandirIt:
    def __init__(self, entries):
        self._it = iter(entries)

    def __iter__(self):
        return self

    def __next__(self):
        return next(self._it)

    def __enter__(self):
        return self

    def __exit__(self, *a):
        self.close()

    def close(self):
        self._it = iter(())


class _DirEntry:
    def __init__(self, fs, base, name, node):
        self.name = name
        self.path = os.path.join(base, name)
        self._is_dir = node.is_dir
        self._ino = node.ino
        self._stat = None

    def stat(self, *, follow_symlinks=True):
        # like os.DirEntry: the first result is cached for the life of the entry object
        if self._stat is None:
            self._stat = os.stat(self.path)          # through the dispatcher: a seam step
        return self._stat

    def is_dir(self, *, follow_symlinks=True):
        return self._is_dir

    def is_file(self, *, follow_symlinks=True):
        return not self._is_dir

    def is_symlink(self):
        return False

    def inode(self):
        return self._ino

    def __fspath__(self):
        return self.path

    def __repr__(self):
        return '<DirEntry %r>' % self.name          # like os.DirEntry: str() does not give the path


class SimRaw(io.RawIOBase):
    def __init__(self, fs, node, path, r, w, append):
        super().__init__()
        self.fs = fs
        self.node = node
        self.path = path
        self._r, self._w, self._append = r, w, append
        self.pos = 0
        self._closed_by_crash = False
        self.fd = fs._next_fd
        fs._next_fd += 1
        fs.fds[self.fd] = self
        self.name = path
        self.mode = 'rb+' if (r and w) else ('wb' if w else 'rb')
        self.bytes_read = []      # what this descriptor returned (for the model)

    def readable(self):
        return self._r

    def writable(self):
        return self._w

    def seekable(self):
        return True

    def fileno(self):
        return self.fd

    def isatty(self):
        return False

    def seek(self, off, whence=0):
        if whence == 0:
            self.pos = off
        elif whence == 1:
            self.pos += off
        else:
            self.pos = len(self.node.data) + off
        return self.pos

    def tell(self):
        return self.pos

    def truncate(self, size=None):
        self.fs._seam('truncate', self.path)
        if size is None:
            size = self.pos
        n = self.node
        n.data = n.data[:size].ljust(size, b'\0')
        n.mtime = self.fs.stamp()
        n.dirty = True
        return size

    def readinto(self, b):
        if not self._r:
            raise io.UnsupportedOperation('read')
        want = len(b)
        if self.fs.max_read:
            want = min(want, self.fs.max_read)
        d = self.fs._seam('read', self.path, size=want)
        n = self.node
        if not n.mode & 0o400 and False:
            raise _eacces(self.path)
        chunk = n.data[self.pos:self.pos + want]
        b[:len(chunk)] = chunk
        self.pos += len(chunk)
        n.atime = self.fs.stamp()
        n.t_used = self.fs.clock()
        self.bytes_read.append(chunk)
        if d and d.after:
            raise d.after
        return len(chunk)

    def write(self, b):
        if not self._w:
            raise io.UnsupportedOperation('write')
        b = bytes(b)
        fs = self.fs
        d = fs._seam('write', self.path, size=len(b))
        limit = len(b)
        then = None
        if fs.max_write:
            limit = min(limit, fs.max_write)
        if d is not None and d.limit is not None:
            limit = min(limit, d.limit)
            then = d.then
        if fs.disk_free is not None:
            if fs.disk_free < limit:
                limit = max(fs.disk_free, 0)
                if limit == 0:
                    e = _err(errno.ENOSPC, self.path)
                    fs.counters['enospc'] = fs.counters.get('enospc', 0) + 1
                    if fs.on_enospc:
                        fs.on_enospc(e)
                    raise e
            fs.disk_free -= limit
        n = self.node
        if self._append:
            self.pos = len(n.data)
        if limit:
            data = n.data
            if len(data) < self.pos:
                data = data.ljust(self.pos, b'\0')
            n.data = data[:self.pos] + b[:limit] + data[self.pos + limit:]
            self.pos += limit
            n.mtime = fs.stamp()
            n.t_used = fs.clock()
            n.dirty = True
        if then is not None:
            raise then
        if d and d.after:
            raise d.after
        return limit

    def close(self):
        if not self.closed:
            self.fs.fds.pop(self.fd, None)
        super().close()


SimFS.on_enospc = None
SimFS.on_open = None

# --------------------------------------------------------------------------
# global dispatch
# --------------------------------------------------------------------------
_active = None          # the SimFS serving ROOT right now (None: none)
_installed = False
_real = {}
pid_provider = None     # callable -> int or None


def activate(fs):
    global _active
    _active = fs


def _is_sim(p):
    if isinstance(p, int):
        return p >= FD_BASE
    try:
        s = os.fspath(p)
    except TypeError:
        return False
    if isinstance(s, bytes):
        try:
            s = s.decode()
        except UnicodeDecodeError:
            return False
    return s == ROOT or s.startswith(ROOT + '/')


def _fs():
    if _active is None:
        raise HarnessError('simulated path used while no SimFS is active')
    return _active


def _dispatch(real, method):
    def f(path, *a, **kw):
        if _is_sim(path):
            return getattr(_fs(), method)(path, *a, **kw)
        return real(path, *a, **kw)
    f.__name__ = getattr(real, '__name__', method)
    f.__wrapped__ = real
    return f


def _unmodelled(real, name):
    def f(path, *a, **kw):
        if _is_sim(path) or any(_is_sim(x) for x in a):
            raise HarnessError('os.%s on a simulated path is not modelled' % name)
        return real(path, *a, **kw)
    f.__wrapped__ = real
    return f


def install():
    """Idempotent.  Patches os/io/builtins/shutil entry points of this process."""
    global _installed
    if _installed:
        return
    _installed = True
    for name, method in [('stat', 'stat'), ('lstat', 'lstat'), ('readlink', 'readlink'), ('mkdir', 'mkdir'),
                         ('rmdir', 'rmdir'), ('listdir', 'listdir'), ('scandir', 'scandir'),
                         ('remove', 'remove'), ('unlink', 'remove'), ('utime', 'utime'),
                         ('chmod', 'chmod'), ('access', 'access')]:
        real = getattr(os, name)
        _real['os.' + name] = real
        setattr(os, name, _dispatch(real, method))

    real_replace, real_rename = os.replace, os.rename
    _real['os.replace'], _real['os.rename'] = real_replace, real_rename

    def replace(src, dst, **kw):
        if _is_sim(src) or _is_sim(dst):
            if not (_is_sim(src) and _is_sim(dst)):
                raise HarnessError('rename across the simulation boundary')
            return _fs().replace(src, dst)
        return real_replace(src, dst, **kw)

    def rename(src, dst, **kw):
        if _is_sim(src) or _is_sim(dst):
            if not (_is_sim(src) and _is_sim(dst)):
                raise HarnessError('rename across the simulation boundary')
            return _fs().replace(src, dst)
        return real_rename(src, dst, **kw)
    os.replace, os.rename = replace, rename

    real_open = builtins.open
    _real['open'] = real_open

    def sim_open(file, *a, **kw):
        if _is_sim(file):
            return _fs().open(file, *a, **kw)
        return real_open(file, *a, **kw)
    sim_open.__wrapped__ = real_open
    builtins.open = sim_open
    io.open = sim_open

    real_os_open = os.open
    _real['os.open'] = real_os_open

    def os_open(path, flags, mode=0o777, **kw):
        if _is_sim(path):
            return _fs().os_open(path, flags, mode)
        return real_os_open(path, flags, mode, **kw)
    os.open = os_open

    def fd_op(name, fn):
        real = getattr(os, name)
        _real['os.' + name] = real

        def f(fd, *a, **kw):
            if isinstance(fd, int) and fd >= FD_BASE:
                raw = _fs().fds.get(fd)
                if raw is None:
                    raise _err(errno.EBADF, fd)
                return fn(raw, *a, **kw)
            return real(fd, *a, **kw)
        setattr(os, name, f)

    def _fsync(raw):
        raw.fs._seam('fsync', raw.path)
        raw.node.dirty = False
        raw.node.durable = raw.node.data

    def _read(raw, n):
        buf = bytearray(n)
        k = raw.readinto(buf)
        return bytes(buf[:k])

    fd_op('close', lambda raw: raw.close())
    fd_op('write', lambda raw, b: raw.write(b))
    fd_op('read', _read)
    fd_op('fsync', _fsync)
    fd_op('fdatasync', _fsync)
    fd_op('fstat', lambda raw: raw.fs._stat_result(raw.node))
    fd_op('ftruncate', lambda raw, n: raw.truncate(n))
    real_fdopen = os.fdopen
    os.fdopen = lambda fd, *a, **kw: (sim_open(fd, *a, **kw) if isinstance(fd, int) and fd >= FD_BASE
                                      else real_fdopen(fd, *a, **kw))

    for name in ('link', 'symlink', 'truncate', 'chown', 'statvfs', 'mkfifo'):
        if hasattr(os, name):
            setattr(os, name, _unmodelled(getattr(os, name), name))

    real_rmtree = shutil.rmtree
    _real['shutil.rmtree'] = real_rmtree

    def rmtree(path, *a, **kw):
        if _is_sim(path):
            return _fs().rmtree(path, *a, **kw)
        return real_rmtree(path, *a, **kw)
    shutil.rmtree = rmtree

    real_getpid = os.getpid
    _real['os.getpid'] = real_getpid

    def getpid():
        if pid_provider is not None:
            p = pid_provider()
            if p is not None:
                return p
        return real_getpid()
    os.getpid = getpid

    try:
        import fcntl
        for name in ('flock', 'lockf'):
            real = getattr(fcntl, name)

            def f(fd, *a, _real=real, _name=name, **kw):
                n = fd if isinstance(fd, int) else fd.fileno()
                if n >= FD_BASE:
                    raise HarnessError('fcntl.%s on a simulated file is not modelled' % _name)
                return _real(fd, *a, **kw)
            setattr(fcntl, name, f)
    except ImportError:
        pass
