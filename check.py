#!/venv/bin/python
"""Entry point of the deterministic-simulation checks.

  check.py run <C04|C16|C17|C18> [--tier quick|thorough] [--wall SECONDS] [--workers N]
  check.py replay <replay.json>
  check.py digest <prop> <tier> <seed,seed,...>       (used by the determinism self-test)

Exit codes: 0 property held on everything explored; 1 VIOLATION; 2 harness error.
Environment: VERIF_SEED (default 0), VERIF_TIER, VERIF_REPO (default /repo: the tree under test).
"""
import json
import os
import sys

HERE = os.path.dirname(os.path.abspath(__file__))


def _bootstrap():
    # one hash seed for every process of a check (set order is never relied on, but keep it fixed)
    if os.environ.get('PYTHONHASHSEED') is None:
        os.environ['PYTHONHASHSEED'] = '0'
        os.execv(sys.executable, [sys.executable] + sys.argv)
    # Interpreter configuration as a swarm knob of the whole run: odd VERIF_SEED values (or
    # VERIF_OPTIMIZE=1) execute everything under `python -O` (assert statements compiled out, as in
    # production deployments); VERIF_OPTIMIZE=0 forces the plain interpreter.  Replay files record it.
    want_opt = os.environ.get('VERIF_OPTIMIZE')
    if want_opt is None:
        want_opt = '1' if int(os.environ.get('VERIF_SEED', '0') or 0) % 2 == 1 else '0'
        os.environ['VERIF_OPTIMIZE'] = want_opt
    if (want_opt == '1') != bool(sys.flags.optimize):
        os.execv(sys.executable, [sys.executable] + (['-O'] if want_opt == '1' else []) + sys.argv)
    repo = os.environ.get('VERIF_REPO', '/repo')
    sys.path[:] = [p for p in sys.path if os.path.abspath(p or '.') != HERE]
    sys.path.insert(0, HERE)
    sys.path.insert(0, repo)
    import parso
    if not os.path.abspath(parso.__file__).startswith(os.path.abspath(repo) + os.sep):
        print('HARNESS-ERROR: parso imported from %s, not from %s' % (parso.__file__, repo))
        sys.exit(2)
    if len(sys.argv) > 2 and 'C18' in sys.argv[1:4]:
        sys.setrecursionlimit(10000)          # the state fingerprint walks deep object graphs
    from dst import pool
    pool.limit_memory()


def main(argv):
    _bootstrap()
    if len(argv) < 2:
        print(__doc__)
        return 2
    cmd = argv[1]
    if cmd == 'run':
        return cmd_run(argv[2:])
    if cmd == 'replay':
        return cmd_replay(argv[2])
    if cmd == 'digest':
        return cmd_digest(argv[2], argv[3], argv[4])
    print(__doc__)
    return 2


def cmd_digest(prop, tier, seeds):
    seeds = [int(x) for x in seeds.split(',')]
    if prop == 'C18':
        from dst import threadsim
        print(json.dumps(threadsim.digest_batch(tier, seeds)))
    else:
        from dst import runner
        print(json.dumps(runner.digest_batch(runner.PROFILE_OF[prop], tier, seeds)))
    return 0


def cmd_replay(path):
    with open(path) as f:
        rp = json.load(f)
    if bool(rp.get('optimize')) != bool(sys.flags.optimize):
        os.environ['VERIF_OPTIMIZE'] = '1' if rp.get('optimize') else '0'
        os.execv(sys.executable, [sys.executable] + (['-O'] if rp.get('optimize') else []) + sys.argv)
    prop = rp['property']
    if prop == 'C18':
        from dst import threadsim
        return threadsim.replay(rp)
    from dst import runner
    res = runner.replay_plan(rp['plan'])
    v = res['violation']
    print('replay of %s: digest %s (recorded %s)' % (path, res['digest'], rp.get('digest')))
    if res['harness_error']:
        print('HARNESS-ERROR: %s' % res['harness_error'])
        return 2
    if v is None:
        print('no violation reproduced')
        return 0
    print('VIOLATION property=%s replay=%s' % (prop, path))
    print('  clause=%s sig=%s' % (v['clause'], v['sig']))
    print('  detail=%s' % (v['detail'],))
    same = rp.get('violation') and rp['violation']['sig'] == v['sig'] and rp.get('digest') == res['digest']
    print('  reproduces the recorded violation exactly: %s' % bool(same))
    return 1


def cmd_run(args):
    import argparse
    ap = argparse.ArgumentParser()
    ap.add_argument('prop')
    ap.add_argument('--tier', default=os.environ.get('VERIF_TIER', 'quick'))
    ap.add_argument('--wall', type=float, default=None)
    ap.add_argument('--workers', type=int, default=int(os.environ.get('VERIF_WORKERS', '0') or 0) or None)
    ap.add_argument('--no-selftest', action='store_true')
    a = ap.parse_args(args)
    seed = int(os.environ.get('VERIF_SEED', '0') or 0)
    tier = a.tier if a.tier in ('quick', 'thorough') else 'quick'
    if a.prop == 'C18':
        from dst import threadsim
        return threadsim.run_check(tier, seed, a.wall, a.workers, not a.no_selftest)
    from dst import runner
    prop = a.prop
    if prop not in runner.PROFILE_OF:
        print('unknown property %s' % prop)
        return 2
    wall = a.wall if a.wall is not None else (75 if tier == 'quick' else 900)
    print('check %s tier=%s VERIF_SEED=%d wall=%ds repo=%s' % (prop, tier, seed, wall,
                                                              os.environ.get('VERIF_REPO', '/repo')))
    # grammars are loaded once here so that forked workers inherit them
    from dst import cacheworld, corpus
    for v in corpus.VERSIONS:
        cacheworld.grammar(v)
    st_ok, st_msg = True, 'skipped'
    if not a.no_selftest:
        st_ok, st_msg = runner.selftest(prop, tier, seed, 12 if tier == 'quick' else 48)
        print('determinism self-test: %s' % st_msg)
        if not st_ok:
            print('HARNESS-ERROR: %s' % st_msg)
            return 2
    agg = runner.search(prop, tier, seed, wall, a.workers)
    known = runner.load_known()
    n_known = runner.report_known_findings(prop, known)
    new = runner.handle_violations(prop, agg, known)
    runner.write_evidence(prop, tier, seed, agg, st_msg, new, extra={'known_findings_reproduced': n_known})
    c = agg['counters']
    print('runs=%d distinct_nontrivial=%d seam_steps=%d sim_seconds=%.0f wall=%.1fs (%.0f runs/h)' % (
        agg['runs'], len(agg['digests']), agg['steps'], agg['sim_span'], agg['wall'],
        agg['runs'] / agg['wall'] * 3600 if agg['wall'] else 0))
    print('faults: ' + ', '.join('%s=%d' % (k, v) for k, v in sorted(c.items()) if k.startswith('fault.')))
    print('probes: ' + ', '.join('%s=%d' % (k, v) for k, v in sorted(c.items()) if k.startswith('probe.')))
    if agg['harness']:
        for h in agg['harness'][:5]:
            print('HARNESS-ERROR: %s' % h)
        return 1 if new else 2
    if agg['runs'] == 0:
        print('HARNESS-ERROR: no runs executed')
        return 2
    return 1 if new else 0


if __name__ == '__main__':
    sys.exit(main(sys.argv))
